#!/usr/bin/env python3
"""lower_rodeo.py -- src/rodeo.rs (the interner layer)  ->  RodeoGen.v (terms of the IR of GenIRRodeo.v).

Checked structure: `struct Rodeo { map: StringMap<K>, hasher: S, strings: Vec<&'static str>, arena: Arena }` with
`type StringMap<K> = HashMap<K, (), ()>`; every translated method exists exactly once over all inherent `impl Rodeo`
blocks, unconditionally, with the expected signature.  The two private helpers must have EXACTLY these shapes:
  get_string_entry_mut(map, strings, hash, target)  =  map.raw_entry_mut().from_hash(hash, EQ(strings, target))
  insert_string(entry, strings, hasher, hash, key)  =  entry.insert_with_hasher(hash, key, (), REHASH(strings, hasher));
  EQ(V, T)     = |key| { let s: &str = [unsafe {] index_unchecked!(V, key.into_usize()) [}]; T == s }        (or s == T)
  REHASH(V, H) = |key| { let s: &str = [unsafe {] index_unchecked!(V, key.into_usize()) [}]; H.hash_one(s) }
and at their call sites `map`/`strings`/`hasher` must be the fields of self (directly or through `let Self {..} = self`).
Recognised forms (STR = the string argument: `val`, `val.as_ref()` and its `let` aliases, or the `&'static str` parameter):
  numbers    literal | usize / key / hash locals | K.into_usize() | <strings>.len() | self.len() (checked accessor)
             | <arena>.memory_usage() | <arena>.max_memory_usage | memory_limits.max_memory_usage | *E.into_key() (E occupied)
             | + - * saturating_sub, comparisons, ! && ||
  statements let Self { map, hasher, strings, arena | .. } = self;     let x [: &str] = val.as_ref();     let x = <number>;
             let h = <hasher>.hash_one(STR);                           if c { .. } [else { .. }]           assert!(c);
             [let x =] match get_string_entry_mut(<map>, <strings>, h, STR) { RawEntryMut::Occupied(e) => A, RawEntryMut::Vacant(e) => B }
             if let RawEntryMut::Occupied(e) = get_string_entry_mut(..) { A } [else { B }]
             match <map>.raw_entry().from_hash(h, EQ(<strings>, STR)) { Some((&k, _)) => A, None => B }
             let k = K::try_from_usize(e).ok_or_else(|| LassoError::new(LassoErrorKind::X))?;
             let r = [unsafe {] <arena>.store_str(STR)? [}];            <strings>.push(r);      <strings>.push(STATIC STR);
             insert_string(E, <strings>, <hasher>, h, k);   (E the vacant entry)
             <map>.clear(); <strings>.clear(); <arena>.clear();        <arena>.max_memory_usage = e;      return R;
  results    Ok(k) | Err(LassoError::new(LassoErrorKind::X)) | <map>.raw_entry().from_hash(h, EQ).map(|(&key, _)| key) | Some(k) | None
             | self.get(val) | self.get(val).is_some() | <boolean> | <number> | Some(<strings>.get_unchecked(e)) | None
             | <strings>.get_unchecked(e) | self.try_get_or_intern[_static](val).expect("..")
"""
import os
import rsparse
from rsparse import Lost
from lower_arena import Fn, Known, strip, names_of, is_path, is_self_field, q, ERRS
from lower_lockfree import LScope

FIELDS = {"map": "StringMap<K>", "hasher": "S", "strings": "Vec<&'static str>", "arena": "Arena"}


def index_unchecked_of(e):
    """[unsafe {] index_unchecked!(V, K.into_usize()) [}]  ->  (V, K-name) or None"""
    e = strip(e)
    if e[0] == "macro" and e[2] == "index_unchecked" and len(e[3]) == 2:
        i = strip(e[3][1])
        if i[0] == "mcall" and i[3] == "into_usize" and not i[4] and strip(i[2])[0] == "path" and len(names_of(strip(i[2]))) == 1:
            return e[3][0], names_of(strip(i[2]))[0]
    return None


def table_closure(c):
    """|key| { let s [: &str] = index_unchecked!(V, key.into_usize()); TAIL }  ->  (V, s-name, TAIL) or None"""
    if not (c[0] == "closure" and len(c[2]) == 1 and isinstance(c[2][0], str) and c[2][0] not in ("_",)): return None
    key = c[2][0]; b = c[3]
    if not (b[0] == "block" and len(b[2]) == 1 and b[2][0][0] == "let" and b[2][0][2][0] == "pbind" and b[3] is not None): return None
    if b[2][0][3] not in (None, "&str"): return None
    iu = index_unchecked_of(b[2][0][4])
    if iu is None or iu[1] != key: return None
    return iu[0], b[2][0][2][2], strip(b[3])


def eq_closure(c, is_strings, is_target):
    t = table_closure(c)
    if t is None: return False
    v, sname, tail = t
    if not is_strings(v): return False
    if tail[0] == "bin" and tail[2] == "==":
        a, b = strip(tail[3]), strip(tail[4])
        return (is_path(a, sname) and is_target(b)) or (is_path(b, sname) and is_target(a))
    return False


def rehash_closure(c, is_strings, is_hasher):
    t = table_closure(c)
    if t is None: return False
    v, sname, tail = t
    return is_strings(v) and tail[0] == "mcall" and tail[3] == "hash_one" and len(tail[4]) == 1 \
        and is_path(strip(tail[4][0]), sname) and is_hasher(tail[2])


class RFn(Fn):
    def __init__(self, rkind, known, env):
        Fn.__init__(self, "rodeo", rkind, known)
        self.sc = LScope()
        self.env = env          # facts about helpers / accessors established by run()
        self.fieldmap = env.get("fieldmap") or {f: f for f in FIELDS}     # source field name -> map / hasher / strings / arena

    # ---- which field of self does an expression denote? ----
    def field_of(self, e):
        e = strip(e)
        if e[0] == "ref": e = strip(e[3])
        if is_self_field(e) and e[3] in self.fieldmap: return self.fieldmap[e[3]]
        if e[0] == "path" and len(names_of(e)) == 1:
            k = self.sc.get(names_of(e)[0])
            if k and k.startswith("f:"): return k[2:]
        return None

    def is_str(self, e):
        """Is e THE string argument?  `T: AsRef<str>` need not be idempotent, so the string is the result of ONE evaluation
        of `<param>.as_ref()` (or of the one hand-over of the parameter to a callee that does it): the `let` that names it,
        or the single inline use.  A second syntactic evaluation anywhere in the function is a different string: LOST."""
        e = strip(e)
        if e[0] == "path" and len(names_of(e)) == 1:
            k = self.sc.get(names_of(e)[0])
            if k in ("str", "static"): return True
            if k == "strlike": self.evaluates_as_ref(e); return True
            if k == "ref" and self.env.get("copy_is_string"): return True     # the stored copy has the bytes of the string
            return False
        if e[0] == "mcall" and e[3] == "as_ref" and not e[4]:
            z = strip(e[2])
            if z[0] == "path" and len(names_of(z)) == 1 and self.sc.get(names_of(z)[0]) == "strlike":
                self.evaluates_as_ref(e); return True
        return False

    def evaluates_as_ref(self, node):
        seen = self.env.setdefault("as_ref_nodes", {})
        seen[id(node)] = node
        if len(seen) > 1:
            self.lost(node, "as_ref() evaluated more than once: `T: AsRef<str>` need not return the same string again")

    def is_static(self, e):
        e = strip(e)
        return e[0] == "path" and len(names_of(e)) == 1 and self.sc.get(names_of(e)[0]) == "static"

    def num(self, e):
        e0 = strip(e)
        k = e0[0]
        if k == "path" and len(names_of(e0)) == 1 and self.sc.get(names_of(e0)[0]) in ("key", "hash"):
            return "EVar %s" % q(names_of(e0)[0])
        if k == "un" and e0[2] == "*":
            m = strip(e0[3])
            if m[0] == "mcall" and m[3] in ("into_key", "key") and not m[4] and strip(m[2])[0] == "path" \
                    and self.sc.get(names_of(strip(m[2]))[0]) == "occ":
                return "EVar %s" % q(names_of(strip(m[2]))[0])
        if k == "mcall" and not e0[4]:
            recv, name = strip(e0[2]), e0[3]
            if name == "into_usize" and recv[0] == "path" and len(names_of(recv)) == 1 and self.sc.get(names_of(recv)[0]) == "key":
                return "EVar %s" % q(names_of(recv)[0])
            if name == "len" and self.field_of(recv) == "strings": return "EField FStringsLen"
            if name == "len" and is_path(recv, "self"):
                if "len" not in self.env["accessors"]: self.lost(e0, "self.len() is not the plain `self.strings.len()`")
                return "EField FStringsLen"
            if name == "memory_usage" and self.field_of(recv) == "arena":
                self.known.need("Arena", "memory_usage", e0[1]); return "EField FUsage"
        if k == "field" and e0[3] == "max_memory_usage":
            if self.field_of(e0[2]) == "arena": return "EField FMaxMem"
            z = strip(e0[2])
            if z[0] == "path" and len(names_of(z)) == 1 and self.sc.get(names_of(z)[0]) == "limits":
                return "EVar %s" % q(names_of(z)[0])
        return Fn.num(self, e)

    # ---- the table lookup primitives ----
    def entry_lookup(self, e):
        """get_string_entry_mut(<map>, <strings>, h, STR) -> h (IR) or None"""
        e = strip(e)
        if not (e[0] == "call" and is_path(e[2], "get_string_entry_mut") and len(e[3]) == 4): return None
        if not self.env["entry_helper"]: self.lost(e, "get_string_entry_mut does not have the expected shape")
        a = e[3]
        if self.field_of(a[0]) != "map": self.lost(e, "1st argument of get_string_entry_mut is not the map of self")
        if self.field_of(a[1]) != "strings": self.lost(e, "2nd argument of get_string_entry_mut is not the strings vector of self")
        if not self.is_str(a[3]): self.lost(e, "4th argument of get_string_entry_mut is not the string argument")
        return self.num(a[2])

    def raw_lookup(self, e):
        """<map>.raw_entry().from_hash(h, EQ(<strings>, STR)) -> h (IR) or None"""
        e = strip(e)
        if not (e[0] == "mcall" and e[3] == "from_hash" and len(e[4]) == 2): return None
        r = strip(e[2])
        if not (r[0] == "mcall" and r[3] == "raw_entry" and not r[4] and self.field_of(r[2]) == "map"): return None
        if not eq_closure(e[4][1], lambda v: self.field_of(v) == "strings", self.is_str):
            self.lost(e, "the equality closure is not `|key| { let s = index_unchecked!(<strings>, key.into_usize()); <the string> == s }`")
        return self.num(e[4][0])

    def result(self, e):
        e0 = strip(e); rk = self.rkind
        if rk == "res_key" and e0[0] == "call" and e0[2][0] == "path" and len(e0[3]) == 1:
            if names_of(e0[2]) == ["Ok"]: return "RROkKey (%s)" % self.key_num(e0[3][0])
            if names_of(e0[2]) == ["Err"]: return "RRErr %s" % self.errkind(e0[3][0])
        if rk == "key" and e0[0] == "mcall" and e0[3] == "expect" and len(e0[4]) == 1 and e0[4][0][0] == "strlit":
            m = strip(e0[2])
            if m[0] == "mcall" and is_path(strip(m[2]), "self") and len(m[4]) == 1 and self.is_str(m[4][0]):
                if m[3] == "try_get_or_intern" and not self.is_static(m[4][0]):
                    self.known.need("Rodeo", "try_get_or_intern", e0[1]); return "RRExpectIntern"
                if m[3] == "try_get_or_intern_static" and self.is_static(m[4][0]):
                    self.known.need("Rodeo", "try_get_or_intern_static", e0[1]); return "RRExpectInternStatic"
        if rk == "opt_key":
            if e0[0] == "mcall" and e0[3] == "map" and len(e0[4]) == 1 and e0[4][0][0] == "closure":
                c = e0[4][0]
                okc = len(c[2]) == 1 and isinstance(c[2][0], tuple) and len(c[2][0]) == 2 and c[2][0][1] in ("_", ()) and \
                    ((c[2][0][0].startswith("&") and is_path(strip(c[3]), c[2][0][0][1:])) or
                     (strip(c[3])[0] == "un" and strip(c[3])[2] == "*" and is_path(strip(strip(c[3])[3]), c[2][0][0])))
                h = self.raw_lookup(e0[2])
                if okc and h is not None: return "RRLookup (%s)" % h
            if is_path(e0, "None"): return "RRNoneKey"
            if e0[0] == "call" and is_path(e0[2], "Some") and len(e0[3]) == 1: return "RRSomeKey (%s)" % self.key_num(e0[3][0])
            if self.is_self_get(e0): return "RRGet"
        if rk == "bool":
            if e0[0] == "mcall" and e0[3] == "is_some" and not e0[4] and self.is_self_get(e0[2]): return "RRGetIsSome"
            return "RRBool (%s)" % self.boolean(e0)
        if rk == "usize": return "RRNum (%s)" % self.num(e0)
        if rk == "opt_str":
            if is_path(e0, "None"): return "RRNoneStr"
            if e0[0] == "call" and is_path(e0[2], "Some") and len(e0[3]) == 1:
                g = self.get_unchecked(e0[3][0])
                if g: return "RRSomeStr (%s)" % g
        if rk == "strref":
            g = self.get_unchecked(e0)
            if g: return "RRStr (%s)" % g
        self.lost(e0, "result expression is outside the subset")

    def is_self_get(self, e):
        e = strip(e)
        if e[0] == "mcall" and e[3] == "get" and is_path(strip(e[2]), "self") and len(e[4]) == 1 and self.is_str(e[4][0]):
            self.known.need("Rodeo", "get", e[1]); return True
        return False

    def get_unchecked(self, e):
        e = strip(e)
        if e[0] == "mcall" and e[3] == "get_unchecked" and len(e[4]) == 1 and self.field_of(e[2]) == "strings":
            return self.num(e[4][0])
        return None

    def key_num(self, e):
        z = strip(e)
        if z[0] == "path" and len(names_of(z)) == 1 and self.sc.get(names_of(z)[0]) == "key": return "EVar %s" % q(names_of(z)[0])
        if z[0] == "un": return self.num(z)
        self.lost(z, "expected a key value")

    # ---- statements ----
    def block(self, b, tail_returns):
        self.sc.push(); out = self.stmts(b, tail_returns); self.sc.pop(); return out

    def flat_block(self, e, tail_returns):
        self.sc.push(); self.sc.flat += 1
        r = self.stmts(e, tail_returns)
        self.sc.flat -= 1; self.sc.pop()
        return r

    def stmts(self, b, tail_returns):
        out = []
        for i, st in enumerate(b[2]):
            # let (&k, _) = <map>.raw_entry().from_hash(h, EQ)?;  REST     (in a function returning Option<K>)
            #   =   match <lookup> { Some((&k, _)) => { REST }, None => return None }
            if st[0] == "let" and st[2][0] == "ptuple" and strip(st[4])[0] == "try" and self.rkind == "opt_key":
                pt = st[2][2]
                h = self.raw_lookup(strip(st[4])[2])
                if h is None or len(pt) != 2 or pt[0][0] != "pref" or pt[0][2][0] != "pbind" or \
                        not (pt[1][0] == "pwild" or (pt[1][0] == "pref" and pt[1][2][0] in ("pwild", "ptuple"))):
                    self.lost(st, "`let (..) = ..?` is not `let (&k, _) = <map>.raw_entry().from_hash(h, EQ)?`")
                k = pt[0][2][2]
                self.sc.push(); self.sc.bind(k, "key", st[1])
                rest = self.stmts(("block", st[1], b[2][i + 1:], b[3], False), tail_returns)
                self.sc.pop()
                return out + [("lookup", h, k, rest, [("s", "RReturn (RRNoneKey)", st[1])], st[1])]
            out += self.let(st) if st[0] == "let" else self.expr_stmt(st[2], st[1])
        t = b[3]
        if t is not None:
            out += self.tail(t) if tail_returns else self.expr_stmt(t, t[1])
        return out

    def tail(self, e):
        k = e[0]
        if k == "paren": return self.tail(e[2])
        if k == "block": return self.flat_block(e, True)
        if k == "if" and e[4] is not None:
            els = self.block(e[4], True) if e[4][0] == "block" else self.tail(e[4])
            return [("if", self.boolean(e[2]), self.block(e[3], True), els, e[1])]
        if k == "match":
            return self.match(e, None, True)
        if k in ("return", "if", "iflet") or self.rkind == "unit":
            return self.expr_stmt(e, e[1])
        return [("s", "RReturn (%s)" % self.result(e), e[1])]

    def let(self, st):
        _, ln, pat, ty, init = st
        e = strip(init)
        # let Self { map, hasher, strings, arena } = self;
        if pat[0] == "pstruct":
            if names_of(pat[2]) not in (["Self"], ["Rodeo"]) or not is_path(e, "self"): self.lost(st, "destructuring of something that is not self")
            got = [f for f, _ in pat[3]]
            if len(set(got)) != len(got) or not set(got) <= set(FIELDS) or (not pat[4] and set(got) != set(FIELDS)):
                self.lost(st, "`let Self { .. } = self` does not name fields of Rodeo")
            for f, sub in pat[3]:
                if sub[0] != "pbind" or sub[3]: self.lost(st, "field pattern outside the subset")
                self.sc.bind(sub[2], "f:" + f, ln)
            return []
        if pat[0] != "pbind": self.lost(st, "`let` pattern outside the subset")
        x, mut = pat[2], pat[3]
        if mut: self.lost(st, "`let mut` is outside the subset")
        if e[0] == "match":
            return self.match(e, x, False)
        if self.is_str(e) and not self.is_static(e):
            if ty not in (None, "&str"): self.lost(st, "type annotation `%s`" % ty)
            self.sc.bind(x, "str", ln); return []
        if self.is_static(e):
            self.sc.bind(x, "static", ln); return []
        if e[0] == "ref" and self.field_of(e) and not e[2]:
            self.sc.bind(x, "f:" + self.field_of(e), ln); return []
        # let h = <hasher>.hash_one(STR);
        if e[0] == "mcall" and e[3] == "hash_one" and len(e[4]) == 1:
            if self.field_of(e[2]) != "hasher": self.lost(st, "hash_one on something that is not the hasher of self")
            if not self.is_str(e[4][0]): self.lost(st, "hash_one of something that is not the string argument")
            self.sc.bind(x, "hash", ln)
            return [("s", "RLetHash %s" % q(x), ln)]
        # let k = K::try_from_usize(e).ok_or_else(|| LassoError::new(..))?;
        if e[0] == "try":
            m = strip(e[2])
            if m[0] == "mcall" and m[3] == "ok_or_else" and len(m[4]) == 1 and m[4][0][0] == "closure" and not m[4][0][2]:
                c = strip(m[2])
                if c[0] == "call" and is_path(c[2], "K", "try_from_usize") and len(c[3]) == 1:
                    n = self.num(c[3][0]); k = self.errkind(m[4][0][3])
                    self.known.need("K", "try_from_usize", ln)
                    self.sc.bind(x, "key", ln)
                    return [("s", "RLetKeyQ %s (%s) %s" % (q(x), n, k), ln)]
            # let r = unsafe { <arena>.store_str(STR)? };
            if m[0] == "mcall" and m[3] == "store_str" and len(m[4]) == 1 and self.field_of(m[2]) == "arena" \
                    and self.is_str(m[4][0]) and not self.is_static(m[4][0]):
                self.known.need("Arena", "store_str", ln)
                self.sc.bind(x, "ref", ln)
                return [("s", "RStoreStrQ %s" % q(x), ln)]
            self.lost(st, "`?` expression outside the subset")
        if ty not in (None, "usize"): self.lost(st, "type annotation `%s`" % ty)
        n = self.num(init)
        self.sc.bind(x, "num", ln)
        return [("s", "RLet %s (%s)" % (q(x), n), ln)]

    def arm_value(self, body, tail_returns, want_value):
        """an arm `=> expr` or `=> { stmts; expr }`: (stmts, value-IR)"""
        self_val = "EConst 0"
        if body[0] == "block":
            st = []
            for s in body[2]:
                st += self.let(s) if s[0] == "let" else self.expr_stmt(s[2], s[1])
            t = body[3]
            if t is not None:
                if want_value: self_val = self.key_num(t)
                elif tail_returns: st += self.tail(t)
                else: st += self.expr_stmt(t, t[1])
            elif want_value:
                self.lost(body, "match arm without a value")
            return st, self_val
        if want_value and strip(body)[0] == "return":       # a diverging arm: `=> return ..`
            return self.expr_stmt(strip(body), body[1]), self_val
        if want_value: return [], self.key_num(body)
        if tail_returns: return self.tail(body), self_val
        return self.expr_stmt(body, body[1]), self_val

    def match(self, e, x, tail_returns):
        _, ln, scrut, arms = e
        h = self.entry_lookup(scrut)
        if h is not None:
            occ = vac = None
            for pat, body in arms:
                if not (pat[0] == "ptuplestruct" and len(pat[3]) == 1 and pat[3][0][0] in ("pbind", "pwild")): self.lost(e, "match arm pattern outside the subset")
                nm = names_of(pat[2])
                ev = pat[3][0][2] if pat[3][0][0] == "pbind" else "_"
                self.sc.push()
                if nm[-2:] == ["RawEntryMut", "Occupied"] and occ is None:
                    if ev != "_": self.sc.bind(ev, "occ", pat[1])
                    occ = (ev,) + self.arm_value(body, tail_returns, x is not None)
                elif nm[-2:] == ["RawEntryMut", "Vacant"] and vac is None:
                    if ev != "_": self.sc.bind(ev, "vac", pat[1])
                    vac = (ev,) + self.arm_value(body, tail_returns, x is not None)
                else:
                    self.lost(e, "match arm is not RawEntryMut::Occupied(e) / RawEntryMut::Vacant(e)")
                self.sc.pop()
            if occ is None or vac is None or len(arms) != 2: self.lost(e, "match on a raw entry needs exactly the Occupied and the Vacant arm")
            if x is not None: self.sc.bind(x, "key", ln)
            return [("entry", x or "_", h, occ, vac, ln)]
        h = self.raw_lookup(scrut)
        if h is not None and x is None:
            sm = nn = None; k = None
            for pat, body in arms:
                self.sc.push()
                if pat[0] == "ptuplestruct" and is_path(pat[2], "Some") and len(pat[3]) == 1 and pat[3][0][0] == "ptuple" \
                        and len(pat[3][0][2]) == 2 and pat[3][0][2][0][0] == "pref" and pat[3][0][2][0][2][0] == "pbind" \
                        and pat[3][0][2][1][0] == "pwild" and sm is None:
                    k = pat[3][0][2][0][2][2]
                    self.sc.bind(k, "key", pat[1])
                    sm = self.arm_value(body, tail_returns, False)[0]
                elif pat[0] == "ppath" and names_of(pat[2]) == ["None"] and nn is None:
                    nn = self.arm_value(body, tail_returns, False)[0]
                else:
                    self.lost(e, "match arm is not Some((&k, _)) / None")
                self.sc.pop()
            if sm is None or nn is None or len(arms) != 2: self.lost(e, "match on a lookup needs exactly the Some and the None arm")
            return [("lookup", h, k, sm, nn, ln)]
        self.lost(e, "`match` on something that is neither get_string_entry_mut(..) nor <map>.raw_entry().from_hash(..)")

    def expr_stmt(self, e, ln):
        k = e[0]
        if k == "paren": return self.expr_stmt(e[2], ln)
        if k == "block": return self.flat_block(e, False)
        if k == "if":
            els = []
            if e[4] is not None:
                els = self.block(e[4], False) if e[4][0] == "block" else self.expr_stmt(e[4], e[4][1])
            return [("if", self.boolean(e[2]), self.block(e[3], False), els, e[1])]
        if k == "iflet":
            _, l2, pat, scrut, then, els = e
            h = self.entry_lookup(scrut)
            if h is None or not (pat[0] == "ptuplestruct" and names_of(pat[2])[-2:] == ["RawEntryMut", "Occupied"]
                                 and len(pat[3]) == 1 and pat[3][0][0] == "pbind"):
                self.lost(e, "`if let` is not `if let RawEntryMut::Occupied(e) = get_string_entry_mut(..)`")
            ev = pat[3][0][2]
            self.sc.push(); self.sc.bind(ev, "occ", l2); a = self.stmts(then, False); self.sc.pop()
            b = []
            if els is not None:
                b = self.block(els, False) if els[0] == "block" else self.expr_stmt(els, els[1])
            return [("entry", "_", h, (ev, a, "EConst 0"), ("_", b, "EConst 0"), l2)]
        if k == "match": return self.match(e, None, False)
        if k == "return":
            if e[2] is None:
                if self.rkind != "unit": self.lost(e, "`return;` in a non-unit function")
                return [("s", "RReturn RRUnit", e[1])]
            return [("s", "RReturn (%s)" % self.result(e[2]), e[1])]
        if k == "macro":
            if e[2] in ("unreachable", "panic") and all(a[0] == "strlit" for a in e[3][:1]):
                return [("s", "RUnreachable", e[1])]
            if e[2] == "assert" and len(e[3]) >= 1 and (len(e[3]) == 1 or e[3][1][0] == "strlit"):
                return [("s", "RAssertP (%s)" % self.boolean(e[3][0]), e[1])]
            self.lost(e, "macro `%s!` is outside the subset" % e[2])
        if k == "call" and is_path(e[2], "insert_string") and len(e[3]) == 5:
            if not self.env["insert_helper"]: self.lost(e, "insert_string does not have the expected shape")
            a = e[3]
            ev = strip(a[0])
            if not (ev[0] == "path" and len(names_of(ev)) == 1 and self.sc.get(names_of(ev)[0]) == "vac"):
                self.lost(e, "1st argument of insert_string is not the vacant entry")
            if self.field_of(a[1]) != "strings": self.lost(e, "2nd argument of insert_string is not the strings vector of self")
            if self.field_of(a[2]) != "hasher": self.lost(e, "3rd argument of insert_string is not the hasher of self")
            return [("s", "RInsert %s (%s) (%s)" % (q(names_of(ev)[0]), self.num(a[3]), self.key_num(a[4])), e[1])]
        if k == "mcall":
            recv, name, args = e[2], e[3], e[4]
            f = self.field_of(recv)
            if name == "clear" and not args and f in ("map", "strings", "arena"):
                if f == "arena": self.known.need("Arena", "clear", e[1])
                return [("s", {"map": "RMapClear", "strings": "RStringsClear", "arena": "RArenaClear"}[f], e[1])]
            if name == "push" and len(args) == 1 and f == "strings":
                a = strip(args[0])
                if self.is_static(a): return [("s", "RPushStatic", e[1])]
                if a[0] == "path" and len(names_of(a)) == 1 and self.sc.get(names_of(a)[0]) == "ref":
                    return [("s", "RPushRef %s" % q(names_of(a)[0]), e[1])]
                self.lost(e, "push of something that is neither the stored string nor the &'static str argument")
            self.lost(e, "method call statement `.%s(..)` is outside the subset" % name)
        if k == "assign" and e[2] == "=":
            lhs = strip(e[3])
            if lhs[0] == "field" and lhs[3] == "max_memory_usage" and self.field_of(lhs[2]) == "arena":
                return [("s", "RSetLimit (%s)" % self.num(e[4]), e[1])]
            self.lost(e, "assignment target outside the subset")
        self.lost(e, "statement form `%s` is outside the subset" % k)


def rpp(stmts, ind, rel):
    pad = " " * ind
    if not stmts: return "RSkip"
    items = []
    for s in stmts:
        if s[0] == "s":
            items.append("%s  (* %s:%d *) %s" % (pad, rel, s[2], s[1]))
        elif s[0] == "if":
            items.append("%s  (* %s:%d *) RIf (%s)\n%s    (%s)\n%s    (%s)" % (pad, rel, s[4], s[1], pad, rpp(s[2], ind + 4, rel), pad, rpp(s[3], ind + 4, rel)))
        elif s[0] == "entry":
            _, x, h, occ, vac, ln = s
            items.append("%s  (* %s:%d *) RLetMatchEntry %s (%s)\n%s    %s (%s) (%s)\n%s    %s (%s) (%s)" % (
                pad, rel, ln, q(x), h, pad, q(occ[0]), rpp(occ[1], ind + 4, rel), occ[2], pad, q(vac[0]), rpp(vac[1], ind + 4, rel), vac[2]))
        else:
            _, h, k, sm, nn, ln = s
            items.append("%s  (* %s:%d *) RMatchLookup (%s) %s\n%s    (%s)\n%s    (%s)" % (pad, rel, ln, h, q(k), pad, rpp(sm, ind + 4, rel), pad, rpp(nn, ind + 4, rel)))
    return "rblock [\n" + ";\n".join(items) + " ]"


METHODS = [
    # name, generated name, parameter types, return type, result kind, kinds of the non-self parameters
    ("try_get_or_intern", "gen_try_get_or_intern", ["&mut self", "T"], "LassoResult<K>", "res_key", ["strlike"]),
    ("get_or_intern", "gen_get_or_intern", ["&mut self", "T"], "K", "key", ["strlike"]),
    ("try_get_or_intern_static", "gen_try_get_or_intern_static", ["&mut self", "&'static str"], "LassoResult<K>", "res_key", ["static"]),
    ("get_or_intern_static", "gen_get_or_intern_static", ["&mut self", "&'static str"], "K", "key", ["static"]),
    ("get", "gen_get", ["&self", "T"], "Option<K>", "opt_key", ["strlike"]),
    ("contains", "gen_contains", ["&self", "T"], "bool", "bool", ["strlike"]),
    ("contains_key", "gen_contains_key", ["&self", "&K"], "bool", "bool", ["key"]),
    ("resolve", "gen_resolve", ["&'a self", "&K"], "&'a str", "strref", ["key"]),
    ("try_resolve", "gen_try_resolve", ["&'a self", "&K"], "Option<&'a str>", "opt_str", ["key"]),
    ("len", "gen_len", ["&self"], "usize", "usize", []),
    ("is_empty", "gen_is_empty", ["&self"], "bool", "bool", []),
    ("clear", "gen_rodeo_clear", ["&mut self"], None, "unit", []),
    ("set_memory_limits", "gen_set_memory_limits", ["&mut self", "MemoryLimits"], None, "unit", ["limits"]),
    ("current_memory_usage", "gen_current_memory_usage", ["&self"], "usize", "usize", []),
    ("max_memory_usage", "gen_max_memory_usage", ["&self"], "usize", "usize", []),
]


def run(repo, out):
    rel = "src/rodeo.rs"
    path = os.path.join(repo, rel)
    known = Known()
    try:
        parser, items = rsparse.parse_file(path)
        st = [i for i in items if i[0] == "struct" and i[3] == "Rodeo"]
        if len(st) != 1 or dict(st[0][4] or []) != FIELDS or len(st[0][4]) != 4 or any(a.startswith("cfg") for a in st[0][2]):
            raise Lost(st[0][1] if st else 1, "struct Rodeo does not have exactly the fields %s" % FIELDS)
        ty = [i for i in items if i[0] == "skipped" and i[3] == "type" and len(i[4]) > 1 and i[4][1].text == "StringMap"]
        if len(ty) != 1 or rsparse.join_tokens(ty[0][4]) != "type StringMap<K>=HashMap<K,(),()>;":
            raise Lost(1, "`type StringMap<K> = HashMap<K, (), ()>;` not found")
        fns = {}
        for i in items:
            if i[0] == "impl" and i[3]["trait"] is None and i[3]["self"].startswith("Rodeo<"):
                if any(a.startswith("cfg") for a in i[2]): raise Lost(i[1], "conditionally compiled `impl Rodeo`")
                for f in i[4]:
                    if f[0] == "fn": fns.setdefault(f[3], []).append(f)
            if i[0] == "skipped" and i[3] == "macro":
                ts = i[4]
                for k in range(len(ts) - 1):
                    if ts[k].text == "impl" and ts[k + 1].text == "Rodeo": raise Lost(i[1], "`impl Rodeo` inside a macro")
        free = {}
        for i in items:
            if i[0] == "fn": free.setdefault(i[3], []).append(i)

        def unique(tab, name, params, ret, what):
            c = tab.get(name, [])
            if len(c) != 1: raise Lost(1, "expected exactly one %s `%s`, found %d" % (what, name, len(c)))
            f = c[0]
            if any(a.startswith("cfg(") for a in f[2]): raise Lost(f[1], "conditionally compiled `fn %s`" % name)
            if [t for _, t in f[4]] != params or f[5] != ret or [x for x in f[8] if x != "const"]:
                raise Lost(f[1], "signature of `%s` is not (%s) -> %s" % (name, ", ".join(params), ret))
            return f

        # ---- the two helpers: exact shapes ----
        env = {"entry_helper": False, "insert_helper": False, "accessors": set()}
        f = unique(free, "get_string_entry_mut", ["&'a mut StringMap<K>", "&[&str]", "u64", "&str"], "RawEntryMut<'a,K,(),()>", "free function")
        pm, ps, ph, pt = [p for p, _ in f[4]]
        b = strip(parser.fn_body(f))
        if b[0] == "mcall" and b[3] == "from_hash" and len(b[4]) == 2 and is_path(strip(b[4][0]), ph):
            r = strip(b[2])
            if r[0] == "mcall" and r[3] == "raw_entry_mut" and not r[4] and is_path(strip(r[2]), pm) \
                    and eq_closure(b[4][1], lambda v: is_path(strip(v), ps), lambda t: is_path(strip(t), pt)):
                env["entry_helper"] = True
        if not env["entry_helper"]: raise Lost(f[1], "get_string_entry_mut is not `map.raw_entry_mut().from_hash(hash, |key| { let s = index_unchecked!(strings, key.into_usize()); target == s })`")
        f = unique(free, "insert_string", ["RawVacantEntryMut<K,(),()>", "&[&str]", "&S", "u64", "K"], None, "free function")
        pe, ps, phs, ph, pk = [p for p, _ in f[4]]
        bb = parser.fn_body(f)
        if len(bb[2]) == 1 and bb[3] is None and bb[2][0][0] == "expr":
            c = strip(bb[2][0][2])
            if c[0] == "mcall" and c[3] == "insert_with_hasher" and is_path(strip(c[2]), pe) and len(c[4]) == 4 \
                    and is_path(strip(c[4][0]), ph) and is_path(strip(c[4][1]), pk) and strip(c[4][2])[0] == "tuple" and not strip(c[4][2])[2] \
                    and rehash_closure(c[4][3], lambda v: is_path(strip(v), ps), lambda h: is_path(strip(h), phs)):
                env["insert_helper"] = True
        if not env["insert_helper"]: raise Lost(f[1], "insert_string is not `entry.insert_with_hasher(hash, key, (), |key| { let s = index_unchecked!(strings, key.into_usize()); hasher.hash_one(s) });`")
        # ---- accessor self.len() ----
        f = unique(fns, "len", ["&self"], "usize", "method")
        b = strip(parser.fn_body(f))
        if b[0] == "mcall" and b[3] == "len" and not b[4] and is_self_field(strip(b[2]), "strings"): env["accessors"].add("len")

        parts = []
        import astx
        inlined = set()
        # interpreted by the lowering itself: the two table primitives (exact shapes checked above), the accessor len() and the
        # methods the wrappers forward to (by specification); every other function of this file is inlined at its call sites
        KEEP = {(None, "get_string_entry_mut"), (None, "insert_string"), ("Rodeo", "len"), ("Rodeo", "get"),
                ("Rodeo", "try_get_or_intern"), ("Rodeo", "try_get_or_intern_static")}
        keep = lambda ty, name, node: (ty, name) in KEEP
        for name, gen, params, ret, rk, kinds in METHODS:
            f = unique(fns, name, params, ret, "method")
            env["as_ref_nodes"] = {}
            fnl = RFn(rk, known, env)
            ps = []
            for (p, _t), kd in zip([x for x in f[4] if x[0] != "self"], kinds):
                fnl.sc.bind(p, kd, f[1])
                if kd in ("key", "limits"): ps.append(p)
            body, inl = astx.prepare(parser, items, f, "Rodeo", keep)
            inlined.update(inl)
            stl = fnl.stmts(body, True)
            if rk == "unit": stl.append(("s", "RReturn RRUnit", f[7]))
            parts.append("(* %s:%d-%d  fn %s *)\nDefinition %s : rfundef := mkRFun [%s]\n  (%s).\n" % (
                rel, f[1], f[7], name, gen, "; ".join(q(p) for p in ps), rpp(stl, 2, rel)))
    except Lost as e:
        if not getattr(e, "file", None): e.file = path
        raise
    hdr = """(* RodeoGen.v -- GENERATED by rust2coq.py from %s
   DO NOT EDIT: regenerated on every run.  Terms of the IR of GenIRRodeo.v (see there for the primitives and
   lower_rodeo.py for the recognised source forms).  Checked shapes: struct Rodeo, type StringMap, the helpers
   get_string_entry_mut (= tlookup) and insert_string (= tinsert), the accessor len().
   Callees replaced by their specification: %s
   Private helpers of the source file inlined before lowering (astx.py): %s *)
From Lasso Require Import Base Arena Rodeo.
From LassoGen Require Import GenPrelude GenIR GenIRRodeo.
Open Scope string_scope.
Open Scope N_scope.

""" % (path, ", ".join(sorted(set("%s::%s" % (t, n) for t, n, _ in known.needs))), ", ".join(sorted(inlined)) or "none")
    tail = "\n#[global] Hint Unfold %s : arenagen.\n" % " ".join(g for _, g, _, _, _, _ in METHODS)
    open(os.path.join(out, "RodeoGen.v"), "w").write(hdr + "\n".join(parts) + tail)
    print("rust2coq: rodeo: %d definitions -> %s" % (len(METHODS), os.path.join(out, "RodeoGen.v")))
