(* AtomicBucketGenProofs.v -- HAND-WRITTEN ONCE (not generated).  One-thread view of atomic_bucket.rs: the generated
   try_inc_length / set_len / push_slice (AtomicBucketGen.v) compute their specifications for ALL inputs, and their
   obligations hold under the specifications' preconditions.  try_inc_spec is the fit test of the model's first-fit
   search (GenIRAb.find_fit_try_inc), push_slice is Arena.push_slice. *)
From Lasso Require Import Base Arena ArenaProofs.
From LassoGen Require Import GenPrelude GenIR GenIRLf GenIRAb GenTactics AtomicBucketGen.
Open Scope N_scope.

(* a loop is unrolled one round at a time, and only when nothing else blocks the evaluation *)
Ltac ab_exec :=
  repeat (cbn; unfold push_slice, set_len_spec; first [ sym_step | rewrite loopN_S ]);
  cbn; unfold push_slice, set_len_spec; cbn.

Ltac gen_ab_tac :=
  intros;
  unfold run_afun, as_try, as_bunit, as_bref, try_inc_spec in *;
  repeat autounfold with arenagen in *;
  unfold try_inc_pre1, set_len_pre in *;
  try match goal with s : str |- _ => case_string s end;
  ab_exec; unfold set_len_pre; finish.

(* the facts about AtomicBucket::layout / with_capacity on which GenIRLf.ab_wc_spec (cap <= isize::MAX - 31, else
   FailedAllocation) rests: three pointer-sized header fields, the CHECKED data layout of exactly `capacity` bytes,
   every failure mapped to FailedAllocation *)
Theorem gen_ab_layout_shape :
  abl_header gen_ab_layout = ["AtomicPtr<Self>"; "usize"; "NonZeroUsize"]%string /\
  abl_data gen_ab_layout = LayoutChecked FailedAllocation /\ abl_err gen_ab_layout = FailedAllocation /\
  forall cap, option_map fst (eval (plain_cx [("capacity"%string, cap)]) (abl_size gen_ab_layout)) = Some (1 * cap).
Proof. repeat autounfold with arenagen. cbn. repeat split. Qed.

Theorem gen_ab_try_inc_length_eq : forall b s n,
  as_try (fst (run_afun gen_ab_try_inc_length b s [n])) = Some (try_inc_spec b n).
Proof. gen_ab_tac. Qed.
(* the reservation never leaves the bucket: the debug_assert `len < capacity && len + additional <= capacity` holds *)
Theorem gen_ab_try_inc_length_safe : forall b s n, try_inc_pre1 b n ->
  snd (run_afun gen_ab_try_inc_length b s [n]).
Proof. gen_ab_tac. Qed.

Theorem gen_ab_set_len_eq : forall b s n,
  as_bunit (fst (run_afun gen_ab_set_len b s [n])) = Some (set_len_spec b n).
Proof. gen_ab_tac. Qed.
Theorem gen_ab_set_len_safe : forall b s n, set_len_pre b n ->
  snd (run_afun gen_ab_set_len b s [n]).
Proof. gen_ab_tac. Qed.

Theorem gen_ab_push_slice_eq : forall b s,
  as_bref (fst (run_afun gen_ab_push_slice b s [])) = Some (Arena.push_slice b s).
Proof. gen_ab_tac. Qed.
Theorem gen_ab_push_slice_safe : forall b s, push_pre b s ->
  snd (run_afun gen_ab_push_slice b s []).
Proof. gen_ab_tac. Qed.

Print Assumptions gen_ab_layout_shape.
Print Assumptions gen_ab_try_inc_length_eq.
Print Assumptions gen_ab_try_inc_length_safe.
Print Assumptions gen_ab_set_len_eq.
Print Assumptions gen_ab_set_len_safe.
Print Assumptions gen_ab_push_slice_eq.
Print Assumptions gen_ab_push_slice_safe.
