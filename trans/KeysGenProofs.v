(* KeysGenProofs.v -- HAND-WRITTEN ONCE (not generated).  For ALL inputs: the definitions that rust2coq.py
   regenerates from src/keys.rs (KeysGen.v) equal the hand-written model Lasso.Keys, and every side
   condition the translator collected (no overflow / underflow, NonZero::new_unchecked argument non-zero and
   in range) holds on the stated domain.  All eight statements are proved by the one tactic [gen_eq_tac],
   which does not follow the shape of the generated terms. *)
From Lasso Require Import Base Keys.
From LassoGen Require Import GenPrelude KeysGen.
Open Scope N_scope.

(* the translator's "usize has 64 bits" is the model's usize_max *)
Lemma usize_bits_is_usize_max : umax usize_bits = Base.usize_max.
Proof. reflexivity. Qed.

Ltac gen_eq_tac :=
  intros;
  repeat autounfold with keysgen in *;
  unfold Keys.try_from_usize, Keys.into_usize, Keys.raw_ok, Keys.is_usize, Base.usize_max,
         in_range, no_underflow, nonzero_arg, try_from_int, checked_add, nz_new, obind, cast, umax, sat_sub in *;
  cbn [Keys.kcap Keys.kwidth Keys.micro_spur Keys.mini_spur Keys.spur Keys.large_spur] in *;
  norm_pow;
  split_cmp;
  prop_close.

Theorem gen_LargeSpur_try_from : forall int, int <= usize_max ->
  gen_LargeSpur_try_from_usize int = Keys.try_from_usize Keys.large_spur int /\ gen_LargeSpur_try_from_usize_ok int.
Proof. gen_eq_tac. Qed.
Theorem gen_LargeSpur_into : forall raw, Keys.raw_ok Keys.large_spur raw ->
  gen_LargeSpur_into_usize raw = Keys.into_usize raw /\ gen_LargeSpur_into_usize_ok raw.
Proof. gen_eq_tac. Qed.

Theorem gen_Spur_try_from : forall int, int <= usize_max ->
  gen_Spur_try_from_usize int = Keys.try_from_usize Keys.spur int /\ gen_Spur_try_from_usize_ok int.
Proof. gen_eq_tac. Qed.
Theorem gen_Spur_into : forall raw, Keys.raw_ok Keys.spur raw ->
  gen_Spur_into_usize raw = Keys.into_usize raw /\ gen_Spur_into_usize_ok raw.
Proof. gen_eq_tac. Qed.

Theorem gen_MiniSpur_try_from : forall int, int <= usize_max ->
  gen_MiniSpur_try_from_usize int = Keys.try_from_usize Keys.mini_spur int /\ gen_MiniSpur_try_from_usize_ok int.
Proof. gen_eq_tac. Qed.
Theorem gen_MiniSpur_into : forall raw, Keys.raw_ok Keys.mini_spur raw ->
  gen_MiniSpur_into_usize raw = Keys.into_usize raw /\ gen_MiniSpur_into_usize_ok raw.
Proof. gen_eq_tac. Qed.

Theorem gen_MicroSpur_try_from : forall int, int <= usize_max ->
  gen_MicroSpur_try_from_usize int = Keys.try_from_usize Keys.micro_spur int /\ gen_MicroSpur_try_from_usize_ok int.
Proof. gen_eq_tac. Qed.
Theorem gen_MicroSpur_into : forall raw, Keys.raw_ok Keys.micro_spur raw ->
  gen_MicroSpur_into_usize raw = Keys.into_usize raw /\ gen_MicroSpur_into_usize_ok raw.
Proof. gen_eq_tac. Qed.

Theorem gen_key_types :
  KeysGen.key_types = [("LargeSpur", 64); ("Spur", 32); ("MiniSpur", 16); ("MicroSpur", 8)]%string.
Proof. reflexivity. Qed.

Print Assumptions gen_LargeSpur_try_from.
Print Assumptions gen_LargeSpur_into.
Print Assumptions gen_Spur_try_from.
Print Assumptions gen_Spur_into.
Print Assumptions gen_MiniSpur_try_from.
Print Assumptions gen_MiniSpur_into.
Print Assumptions gen_MicroSpur_try_from.
Print Assumptions gen_MicroSpur_into.
Print Assumptions gen_key_types.
