(* GenIRSerde.v -- HAND-WRITTEN, fixed.  IR and interpreter for the serde impls of lasso (feature "serialize"):
   `impl Deserialize for Rodeo / RodeoReader / RodeoResolver` and `impl Serialize for Rodeo / RodeoReader / RodeoResolver /
   ThreadedRodeo`.  rust2coq.py --only serde (lower_serde.py) emits terms of this language (SerdeGen.v).

   THE DESERIALISER is  <prelude lets> ; for (<idx>, string) in vector.into_iter().enumerate() { BODY } ; Ok(Self { .. }).
   The prelude is evaluated symbolically by the translator (every `let` must be one of the recognised pure forms; names
   are free) and summarised as [ds_bytes] (how the arena's first bucket is sized) and [ds_limit] (its memory limit); the
   BODY is emitted statement by statement, IN SOURCE ORDER, as a [dstmt], and this interpreter decides what the order means.

   TRUSTED READINGS (the same contracts as GenIRRodeo.v / GenIRClone.v):
     * `Vec::<String>::deserialize(deserializer)?` hands over the document: the list [l] of strings (a parser error is
       serde's own and outside the model, whose input is the parsed document);
     * `vector.into_iter().enumerate()` / `for string in vector` yield the strings of [l] in order, with positions 0, 1, ..;
     * `vector.iter().map(|s| s.len()).sum::<usize>()` = sum_N (map slen l)  (no overflow: the strings are in memory);
       `NonZeroUsize::new(n)` = None iff n = 0; `Capacity::default().bytes()` = Rodeo.default_bytes;
       `Capacity::new(a, b)` has .strings = a, .bytes = b;
     * `Vec::with_capacity`, `HashMap::with_capacity_and_hasher(_, ())` only pre-allocate; `Default::default()` of the
       BuildHasher is THE hasher (the model has one hash function); `Arena::new(b, m)` = Arena.arena_new b m (its Layout
       refusal above isize::MAX: ArenaGenProofs.gen_new_refuses, outside the model's de_rodeo, as for r_clone);
     * `arena.store_str(&string)` = Arena.vec_store (ArenaGenProofs.gen_store_str_eq_exact); the copy it returns has the
       bytes of the string, so hashing / comparing the copy is hashing / comparing the string;
     * `map.raw_entry_mut().from_hash(h, |key| x == index_unchecked!(strings, key.into_usize()))` = Rodeo.tlookup on the
       table, strings vector and arena AS THEY ARE AT THAT STATEMENT; obligation: every key in the table indexes the vector;
     * `entry.insert_with_hasher(h, k, (), |key| hasher.hash_one(index_unchecked!(strings, key.into_usize())))` on the
       vacant entry of that lookup = Rodeo.tinsert with the strings vector AS IT IS AT THAT STATEMENT; obligation as above
       for the table including the new entry;
     * `K::try_from_usize(i)` = Rodeo.try_key keycap i; `.expect(..)` of None / Err = panic;
     * `return Err(serde::de::Error::custom(..))` = the deserialiser's error (DErr).
   THE SERIALISERS: `self.strings.serialize(serializer)` writes the sequence of the strings in vector (= key) order. *)
From Lasso Require Import Base Arena Rodeo.
From LassoGen Require Import GenPrelude GenIR GenIRRodeo.
Open Scope N_scope.

#[global] Arguments DOk {A} a.
#[global] Arguments DErr {A}.
#[global] Arguments DPanic {A}.

Inductive nexpr := NVar (x : string) | NLit (n : N) | NAdd (a b : nexpr).

Inductive bytesexpr :=
| BSumOrDefault      (* NonZeroUsize::new(<sum of the lengths>).unwrap_or_else(|| Capacity::default().bytes()) *)
| BSumUnwrap.        (* NonZeroUsize::new(<sum of the lengths>).unwrap()       -- panics on an all-empty document *)

Inductive dlimit :=
| DLimUsizeMax       (* usize::MAX *)
| DLimBytes.         (* <capacity>.bytes.get() *)

Inductive dstmt :=
| DSkip
| DSeq (p q : dstmt)
| DStoreExpect (x : string)                       (* let x = unsafe { <arena>.store_str(&<string>).expect(..) }; *)
| DLetHash (h : string)                           (* let h = <hasher>.hash_one(<the string or its copy>); *)
| DProbe (e h : string)                           (* let e = <map>.raw_entry_mut().from_hash(h, |key| <copy> == <strings>[key]); *)
| DMatchEntry (e : string) (occ : dstmt) (ev : string) (vac : dstmt)
      (* match e { RawEntryMut::Occupied(..) => occ, RawEntryMut::Vacant(ev) => vac } *)
| DLetKeyExpect (k : string) (i : nexpr)          (* let k = K::try_from_usize(i).expect(..); *)
| DPush (x : string)                              (* <strings>.push(x); *)
| DInsert (ev h k : string)                       (* ev.insert_with_hasher(h, k, (), |key| <hasher>.hash_one(<strings>[key])); *)
| DReturnErr                                      (* return Err(serde::de::Error::custom(..)); *)
| DContinue.                                      (* continue;   (the unrepaired code: F5) *)

Definition dblock (l : list dstmt) : dstmt := fold_right DSeq DSkip l.

Record deser := mkDeser {
  ds_bytes : bytesexpr;
  ds_limit : dlimit;
  ds_idx : option string;          (* Some idx: for (idx, string) in vector.into_iter().enumerate(); None: for string in vector *)
  ds_body : dstmt }.

(* what a serialiser hands to serde *)
Inductive serexpr :=
| SerField (f : string)            (* self.<f>.serialize(serializer) *)
| SerMapCollected.                 (* let mut map = HashMap::with_capacity(self.map.len());
                                      for entry in self.map.iter() { map.insert( *entry.key(), entry.value().to_owned() ); }
                                      map.serialize(serializer) *)

Section Interp.
  Variable hash : str -> N.
  Variable cand : N -> N -> bool.
  Variable growf : N -> bool.
  Variable keycap : N.

  Fixpoint neval (nums : list (string * N)) (e : nexpr) : option N :=
    match e with
    | NVar x => lookup x nums
    | NLit n => Some n
    | NAdd a b => match neval nums a, neval nums b with Some x, Some y => Some (x + y) | _, _ => None end
    end.

  Record dstate := mkDs {
    d_r : rodeo;
    d_nums : list (string * N);                 (* the position, hashes, keys *)
    d_refs : list (string * sref);              (* copies in the arena *)
    d_probes : list (string * option N);        (* raw entries: the result of the lookup that made them *)
    d_vac : option string;                      (* the vacant entry bound by the enclosing match arm, until its insert *)
    d_ok : Prop }.

  Inductive dout :=
  | DNormal (st : dstate)
  | DNext (r : rodeo) (ok : Prop)               (* continue *)
  | DError (ok : Prop)                          (* return Err(..) *)
  | DPanicked (ok : Prop)
  | DStuck.

  Fixpoint dexec (s : str) (p : dstmt) (st : dstate) : dout :=
    let '(mkDs r nums refs probes vac ok) := st in
    match p with
    | DSkip => DNormal st
    | DSeq p q => match dexec s p st with DNormal st' => dexec s q st' | o => o end
    | DStoreExpect x =>
        match vec_store (rar r) s with
        | (a', Ok rf) => DNormal (mkDs (mkRodeo (rmap r) (rstrs r) a') nums ((x, rf) :: refs) probes vac ok)
        | (_, Err _) => DPanicked ok
        end
    | DLetHash h => DNormal (mkDs r ((h, hash s) :: nums) refs probes vac ok)
    | DProbe e h =>
        match lookup h nums with
        | Some hv =>
            DNormal (mkDs r nums refs ((e, tlookup cand (rmap r) (rstrs r) (rar r) hv s) :: probes) vac
                          (ok /\ table_keys_ok (rmap r) (rstrs r)))
        | None => DStuck
        end
    | DMatchEntry e occ ev vb =>
        match lookup e probes, vac with
        | Some (Some _), None => dexec s occ st
        | Some None, None =>
            match dexec s vb (mkDs r nums refs probes (Some ev) ok) with
            | DNormal (mkDs r' nums' refs' probes' None ok') => DNormal (mkDs r' nums refs probes' None ok')
            | DNormal _ => DStuck                 (* the vacant entry was dropped without an insert: not the model's loop *)
            | o => o
            end
        | _, _ => DStuck
        end
    | DLetKeyExpect k i =>
        match neval nums i with
        | Some iv =>
            match try_key keycap iv with
            | Some kv => DNormal (mkDs r ((k, kv) :: nums) refs probes vac ok)
            | None => DPanicked ok
            end
        | None => DStuck
        end
    | DPush x =>
        match lookup x refs with
        | Some rf => DNormal (mkDs (mkRodeo (rmap r) (rstrs r ++ [rf]) (rar r)) nums refs probes vac ok)
        | None => DStuck
        end
    | DInsert ev h k =>
        match vac, lookup h nums, lookup k nums with
        | Some v, Some hv, Some kv =>
            if String.eqb v ev
            then DNormal (mkDs (mkRodeo (tinsert hash growf (rmap r) (rstrs r) (rar r) hv kv) (rstrs r) (rar r))
                               nums refs probes None (ok /\ table_keys_ok ((hv, kv) :: rmap r) (rstrs r)))
            else DStuck
        | _, _, _ => DStuck
        end
    | DReturnErr => DError ok
    | DContinue => DNext r ok
    end.

  (* the loop: one run of the body per string of the document *)
  Fixpoint de_loop (idx : option string) (body : dstmt) (l : list str) (pos : N) (r : rodeo) : option (dres rodeo) * Prop :=
    match l with
    | [] => (Some (DOk r), True)
    | s :: rest =>
        match dexec s body (mkDs r (match idx with Some i => [(i, pos)] | None => [] end) [] [] None True) with
        | DNormal (mkDs r' _ _ _ None ok) => let (res, ok') := de_loop idx body rest (pos + 1) r' in (res, ok /\ ok')
        | DNext r' ok => let (res, ok') := de_loop idx body rest (pos + 1) r' in (res, ok /\ ok')
        | DError ok => (Some DErr, ok)
        | DPanicked ok => (Some DPanic, ok)
        | _ => (None, False)
        end
    end.

  Definition bytes_of (b : bytesexpr) (l : list str) : option N :=
    let total := sum_N (map slen l) in
    match b with
    | BSumOrDefault => Some (if total =? 0 then default_bytes else total)
    | BSumUnwrap => if total =? 0 then None else Some total
    end.

  Definition limit_of (m : dlimit) (bytes : N) : N :=
    match m with DLimUsizeMax => usize_max | DLimBytes => bytes end.

  Definition run_deser (d : deser) (l : list str) : option (dres rodeo) * Prop :=
    match bytes_of (ds_bytes d) l with
    | None => (Some DPanic, True)
    | Some b => de_loop (ds_idx d) (ds_body d) l 0 (rodeo_new b (limit_of (ds_limit d) b))
    end.

  (* RodeoResolver has no table: the strings vector and the arena of the same run *)
  Definition strip_table (x : dres rodeo) : dres (list sref * arena) :=
    match x with DOk r => DOk (rstrs r, rar r) | DErr => DErr | DPanic => DPanic end.
End Interp.

(* the document of a serialiser, for an object holding (strings vector, arena) / for the concurrent interner *)
Definition ser_strs (e : serexpr) (strs : list sref) (a : arena) : option doc :=
  match e with
  | SerField "strings" => option_map DList (contents strs a)
  | _ => None
  end.

(* ================= Deserialize for ThreadedRodeo =================
   <prelude lets, with the key check>   for (string, key) in <document> { BODY }   Ok(Self { map, strings, key: AtomicUsize::new(next), arena })
   TRUSTED READINGS: `HashMap::<String, K>::deserialize(deserializer)?` hands over the document: the list [l] of
   (string, key index) pairs in the (unspecified, but fixed) order the HashMap yields them, `.values()` and `.keys()` in
   that same order; the check
       let mut seen = vec![false; <doc>.len()];
       for key in <doc>.values() { match seen.get_mut(key.into_usize()) { Some(s) if !*s => *s = true, _ => return Err(custom("..")) } }
   is Rodeo.keys_dense l (repeat false (length l)) (it is recognised in exactly this shape, or it is absent);
   `DashMap::with_capacity_and_hasher` only pre-allocates; `LockfreeArena::new(b, m)` = Arena.arena_new b m;
   `arena.store_str(&string)` = Arena.lf_store (LockfreeGenProofs); the copy has the bytes of the string, so
   `<map>.insert(copy, key)` REPLACES the entry whose string has those bytes (DashMap<&str, K>: keyed by content) and
   `<strings>.insert(key, copy)` = Rodeo.strs_insert (DashMap<K, &str>); `key.into_usize()` is the key's index. *)
Inductive tstmt :=
| TBumpNext (strict : bool) (plus : N)     (* if key.into_usize() >= next { next = key.into_usize() + plus; }     (strict: `>`) *)
| TStoreExpect (x : string)                (* let x = unsafe { <arena>.store_str(&string).expect(..) }; *)
| TMapInsert (x : string)                  (* <map>.insert(x, key); *)
| TStringsInsert (x : string).             (* <strings>.insert(key, x); *)

Record tdeser := mkTDeser {
  td_check : bool;                         (* the key check in front of the loop is present *)
  td_bytes : bytesexpr;
  td_limit : dlimit;
  td_next0 : N;                            (* let mut next = <literal>; *)
  td_body : list tstmt }.

Record tdstate := mkTd { td_t : trodeo; td_next : N; td_refs : list (string * sref) }.
Inductive tdout := TNormal (st : tdstate) | TPanicked | TStuck.

Definition texec1 (s : str) (k : N) (p : tstmt) (st : tdstate) : tdout :=
  let '(mkTd t next refs) := st in
  match p with
  | TBumpNext strict plus =>
      TNormal (mkTd t (if (if strict then next <? k else next <=? k) then k + plus else next) refs)
  | TStoreExpect x =>
      match lf_store (tar t) s with
      | (a', Ok rf) => TNormal (mkTd (mkT (tmap t) (tstrs t) (tkey t) a') next ((x, rf) :: refs))
      | (_, Err _) => TPanicked
      end
  | TMapInsert x =>
      match lookup x refs with
      | Some rf =>
          TNormal (mkTd (mkT (filter (fun e => negb (match read (tar t) (fst e) with
                                                     | Some s' => str_eqb s s' | None => false end)) (tmap t) ++ [(rf, k)])
                             (tstrs t) (tkey t) (tar t)) next refs)
      | None => TStuck
      end
  | TStringsInsert x =>
      match lookup x refs with
      | Some rf => TNormal (mkTd (mkT (tmap t) (strs_insert k rf (tstrs t)) (tkey t) (tar t)) next refs)
      | None => TStuck
      end
  end.

Fixpoint texec (s : str) (k : N) (body : list tstmt) (st : tdstate) : tdout :=
  match body with
  | [] => TNormal st
  | p :: rest => match texec1 s k p st with TNormal st' => texec s k rest st' | o => o end
  end.

Fixpoint det_loop (body : list tstmt) (l : list (str * N)) (t : trodeo) (next : N) : option (dres trodeo) :=
  match l with
  | [] => Some (DOk (mkT (tmap t) (tstrs t) next (tar t)))           (* key: AtomicUsize::new(next) *)
  | (s, k) :: rest =>
      match texec s k body (mkTd t next []) with
      | TNormal (mkTd t' next' _) => det_loop body rest t' next'
      | TPanicked => Some DPanic
      | TStuck => None
      end
  end.

Definition run_tdeser (d : tdeser) (l : list (str * N)) : option (dres trodeo) :=
  if td_check d && negb (keys_dense l (repeat false (List.length l))) then Some DErr
  else match bytes_of (td_bytes d) (map fst l) with
       | None => Some DPanic
       | Some b => det_loop (td_body d) l (trodeo_new b (limit_of (td_limit d) b)) (td_next0 d)
       end.
