#!/bin/sh
# dev.sh <file.v ...> -- compile hand-written files in a scratch directory (/tmp/trans-dev), never here
D=/tmp/trans-dev; mkdir -p $D
HERE=$(cd "$(dirname "$0")" && pwd)
cp "$HERE"/*.v $D/ 2>/dev/null
cd $D || exit 2
for f in "$@"; do
  echo "== $f"; timeout 300 coqc -Q /verif/coq Lasso -Q . LassoGen "$f" || exit 1
done
