#!/usr/bin/env python3
"""astx.py -- source-level (AST -> AST) preparation of a function body before it is lowered to an IR:

  * INLINING of calls to private helper functions / methods of the same file (non-recursive; attributes such as
    #[cold] / #[inline] are irrelevant).  Which calls are inlined is decided by a resolver given by the lowering: the
    callees it interprets by specification are kept, everything else that resolves to a function of the same file is
    inlined.  The helper's parameters and locals are renamed apart (suffix `__<helper><n>`); an argument that is a place
    expression, a literal, Some(place)/None or a closure replaces the parameter, any other argument is bound by a `let`
    in front (evaluated once, in order).  A closure parameter must be called exactly once: the call is beta-reduced.
      - a call in TAIL / `return` position:            the helper's body replaces it (its returns are the caller's);
      - `let x = CALL[?];` / `CALL[?];` in a statement list: the rest of the list becomes the continuation of every exit
        of the helper (`return E` inside the helper = `let x = E[?]; rest`).  A helper with early returns can only be
        inlined this way in a block in TAIL position of the function (the continuation then ends in the caller's own
        result, made an explicit `return`); elsewhere it must have its single exit at the end -- otherwise LOST;
      - a call nested in an expression: only helpers without early return; a body with statements is hoisted out of
        `Ok(..)` / `Some(..)` / `Err(..)` / `return ..` / `let x = ..` / `unsafe {..}` -- otherwise LOST.
    Early `return` therefore keeps its meaning: it leaves the HELPER, never the caller.
  * NORMALISATION of a few behaviour-preserving idioms to the shapes the lowerings know:
      `Ok(v)?` = v; `Err(e)?` = `return Err(e)`; `match Some(a) / None {..}` on a literal scrutinee is decided;
      `let f = <closure>;` used once is substituted; `let x = E;` used only in the immediately following statement is
      substituted there (verif_point! lines are transparent); `f(path_to_fn)` for a helper path argument is
      eta-expanded `|..| helper(..)`;
      `let x = match M { P => return R, Q(v) => V };  REST`  =  `match M { P => return R, Q(v) => { let x = V; REST } }`
      (a `let`-match with a diverging arm: the rest moves into the other arm(s));
      `let (a, ..) = E?` is left to the lowering.
Everything here is part of the trusted translator; it is purely syntactic and LOST on anything it does not cover.
"""
from rsparse import Lost

LEAVES = ("lit", "strlit", "charlit", "path", "break", "continue", "pwild")


def names_of(p):
    return [s if isinstance(s, str) else s[0] for s in p[2]]


def is_path1(e, name=None):
    return e[0] == "path" and len(e[2]) == 1 and isinstance(e[2][0], str) and (name is None or e[2][0] == name)


def strip(e):
    while True:
        if e[0] == "paren": e = e[2]
        elif e[0] == "block" and not e[2] and e[3] is not None: e = e[3]
        else: return e


# ---------------------------------------------------------------- generic traversal
def map_expr(e, f):
    """rebuild e with f applied to every direct sub-expression (statements of blocks included)"""
    k = e[0]
    if k in LEAVES: return e
    if k in ("field", "tfield", "cast", "try", "paren"): return (k, e[1], f(e[2])) + tuple(e[3:])
    if k == "index": return (k, e[1], f(e[2]), f(e[3]))
    if k == "mcall": return (k, e[1], f(e[2]), e[3], [f(a) for a in e[4]])
    if k == "call": return (k, e[1], f(e[2]), [f(a) for a in e[3]])
    if k == "bin": return (k, e[1], e[2], f(e[3]), f(e[4]))
    if k == "un": return (k, e[1], e[2], f(e[3]))
    if k == "ref": return (k, e[1], e[2], f(e[3]))
    if k == "assign": return (k, e[1], e[2], f(e[3]), f(e[4]))
    if k == "if": return (k, e[1], f(e[2]), f(e[3]), None if e[4] is None else f(e[4]))
    if k == "iflet": return (k, e[1], e[2], f(e[3]), f(e[4]), None if e[5] is None else f(e[5]))
    if k == "block":
        sts = []
        for s in e[2]:
            if s[0] == "let": sts.append(("let", s[1], s[2], s[3], f(s[4])))
            else: sts.append(("expr", s[1], f(s[2]), s[3]))
        return (k, e[1], sts, None if e[3] is None else f(e[3]), e[4])
    if k == "struct": return (k, e[1], e[2], [(n, f(v)) for n, v in e[3]])
    if k == "closure": return (k, e[1], e[2], f(e[3]))
    if k == "macro": return (k, e[1], e[2], [f(a) for a in e[3]])
    if k == "return": return (k, e[1], None if e[2] is None else f(e[2]))
    if k == "for": return (k, e[1], e[2], f(e[3]), f(e[4]))
    if k == "tuple": return (k, e[1], [f(a) for a in e[2]])
    if k == "match": return (k, e[1], f(e[2]), [(a[0], f(a[1])) + ((f(a[2]),) if len(a) == 3 else ()) for a in e[3]])
    if k == "range": return (k, e[1], f(e[2]), f(e[3]))
    raise Lost(e[1], "astx: unknown node `%s`" % k)


def walk(e, visit):
    """visit every expression node (pre-order)"""
    visit(e)
    map_expr(e, lambda c: (walk(c, visit), c)[1])


def pattern_names(p, out):
    k = p[0]
    if k == "pbind": out.append(p[2])
    elif k in ("ptuplestruct",): [pattern_names(q, out) for q in p[3]]
    elif k == "ptuple": [pattern_names(q, out) for q in p[2]]
    elif k == "pref": pattern_names(p[2], out)
    elif k == "pstruct": [pattern_names(q, out) for _, q in p[3]]
    return out


def rename_pattern(p, m):
    k = p[0]
    if k == "pbind": return ("pbind", p[1], m.get(p[2], p[2]), p[3])
    if k == "ptuplestruct": return (k, p[1], p[2], [rename_pattern(q, m) for q in p[3]])
    if k == "ptuple": return (k, p[1], [rename_pattern(q, m) for q in p[2]])
    if k == "pref": return (k, p[1], rename_pattern(p[2], m))
    if k == "pstruct": return (k, p[1], p[2], [(f, rename_pattern(q, m)) for f, q in p[3]], p[4])
    return p


def closure_param_names(ps, out):
    for p in ps:
        if isinstance(p, tuple): closure_param_names(list(p), out)
        elif p != "_": out.append(p[1:] if p.startswith("&") else p)
    return out


def rename_closure_params(ps, m):
    def r(p):
        if isinstance(p, tuple): return tuple(r(q) for q in p)
        if p == "_": return p
        if p.startswith("&"): return "&" + m.get(p[1:], p[1:])
        return m.get(p, p)
    return [r(p) for p in ps]


def bound_names(e):
    """every name bound anywhere inside e (let / if let / match / for / closure parameters)"""
    out = []

    def v(n):
        k = n[0]
        if k == "block":
            for s in n[2]:
                if s[0] == "let": pattern_names(s[2], out)
        elif k == "iflet": pattern_names(n[2], out)
        elif k == "for": pattern_names(n[2], out)
        elif k == "match": [pattern_names(a[0], out) for a in n[3]]
        elif k == "closure": closure_param_names(n[2], out)
    walk(e, v)
    return out


def uniquify(body, params, sfx):
    """scope-aware renaming of a helper instance: every binder gets its own fresh name `<name><sfx>[_k]`, uses follow the
    Rust scoping rules (let: rest of the block; if let / match arm / for / closure: the guarded body).
    -> (new body, {param: new name})"""
    used = {}

    def fresh(x):
        used[x] = used.get(x, 0) + 1
        return x + sfx + ("" if used[x] == 1 else "_%d" % used[x])

    def bind(pat, env):
        m = {x: fresh(x) for x in pattern_names(pat, [])}
        env2 = dict(env); env2.update(m)
        return rename_pattern(pat, m), env2

    def r(n, env):
        k = n[0]
        if is_path1(n): return ("path", n[1], [env[n[2][0]]]) if n[2][0] in env else n
        if k == "block":
            sts = []; e2 = env
            for st in n[2]:
                if st[0] == "let":
                    init = r(st[4], e2)
                    pat, e2 = bind(st[2], e2)
                    sts.append(("let", st[1], pat, st[3], init))
                else:
                    sts.append(("expr", st[1], r(st[2], e2), st[3]))
            return (k, n[1], sts, None if n[3] is None else r(n[3], e2), n[4])
        if k == "iflet":
            sc = r(n[3], env); pat, e2 = bind(n[2], env)
            return (k, n[1], pat, sc, r(n[4], e2), None if n[5] is None else r(n[5], env))
        if k == "for":
            it = r(n[3], env); pat, e2 = bind(n[2], env)
            return (k, n[1], pat, it, r(n[4], e2))
        if k == "match":
            arms = []
            for a in n[3]:
                pat, e2 = bind(a[0], env)
                arms.append((pat, r(a[1], e2)) + ((r(a[2], e2),) if len(a) == 3 else ()))
            return (k, n[1], r(n[2], env), arms)
        if k == "closure":
            names = closure_param_names(n[2], [])
            m = {x: fresh(x) for x in names}
            e2 = dict(env); e2.update(m)
            return (k, n[1], rename_closure_params(n[2], m), r(n[3], e2))
        if k == "call" and is_path1(n[2]) and n[2][2][0] not in env:
            return (k, n[1], n[2], [r(a, env) for a in n[3]])
        return map_expr(n, lambda c: r(c, env))
    pm = {p: fresh(p) for p in params}
    return r(body, pm), pm


def subst(e, m):
    """replace the single-segment paths named in m by the given expressions (also as receiver `self`)"""
    def r(n):
        if is_path1(n) and n[2][0] in m: return m[n[2][0]]
        if n[0] == "call" and is_path1(n[2]) and n[2][2][0] in m and m[n[2][2][0]][0] == "closure":
            return beta(m[n[2][2][0]], [r(a) for a in n[3]], n[1])
        if n[0] == "call" and is_path1(n[2]):
            return ("call", n[1], n[2], [r(a) for a in n[3]])
        return map_expr(n, r)
    return r(e)


def count_uses(e, name):
    c = [0]

    def v(n):
        if is_path1(n, name): c[0] += 1
    walk(e, v)
    return c[0]


def contains_return(e):
    """an explicit `return` outside closures"""
    found = [False]

    def v(n):
        if n[0] == "return": found[0] = True

    def w(n):
        if n[0] == "closure": return
        v(n)
        map_expr(n, lambda c: (w(c), c)[1])
    w(e)
    return found[0]


def is_place(e):
    """an expression that can replace a parameter textually: no evaluation, no side effect"""
    e0 = strip(e)
    k = e0[0]
    if k in ("lit", "strlit", "path"): return True
    if k == "field": return is_place(e0[2])
    if k == "ref": return is_place(e0[3])
    if k == "un" and e0[2] == "*": return is_place(e0[3])
    if k == "tuple" and not e0[2]: return True
    if k == "call" and is_path1(e0[2], "Some") and len(e0[3]) == 1: return is_place(e0[3][0])
    return False


def beta(clo, args, ln):
    """(|p1, ..| body)(a1, ..)"""
    ps = clo[2]
    if len(ps) != len(args) or any(not isinstance(p, str) or p.startswith("&") for p in ps):
        raise Lost(ln, "closure call outside the subset")
    m, lets = {}, []
    for p, a in zip(ps, args):
        if p == "_": continue
        if is_place(a): m[p] = a
        else: raise Lost(ln, "closure called with a computed argument")
    return subst(clo[3], m)


def block_of(e, ln=None):
    if e[0] == "block" and not e[4]: return e
    return ("block", e[1] if ln is None else ln, [], e, False)


def mkblock(ln, stmts, tail):
    return ("block", ln, stmts, tail, False)


# ---------------------------------------------------------------- exits of a helper body
def map_exits(b, k_tail, k_ret):
    """b: block.  Replace the value of every tail exit E by k_tail(E) and every explicit `return E` by k_ret(E)."""
    def exit_expr(e):
        k = e[0]
        if k == "paren": return exit_expr(e[2])
        if k == "block": return on_block(e)
        if k == "if" and e[4] is not None: return ("if", e[1], rets(e[2]), on_block(e[3]), exit_expr(e[4]))
        if k == "iflet" and e[5] is not None: return ("iflet", e[1], e[2], rets(e[3]), on_block(e[4]), exit_expr(e[5]))
        if k == "match": return ("match", e[1], rets(e[2]), [(a[0], exit_expr(a[1])) + ((rets(a[2]),) if len(a) == 3 else ()) for a in e[3]])
        if k == "return": return k_ret(e[2] if e[2] is not None else ("tuple", e[1], []), e[1])
        return k_tail(rets(e), e[1])

    def rets(e):
        if e[0] == "closure": return e
        if e[0] == "return": return k_ret(rets(e[2]) if e[2] is not None else ("tuple", e[1], []), e[1])
        return map_expr(e, rets)

    def on_block(blk):
        sts = []
        for s in blk[2]:
            if s[0] == "let": sts.append(("let", s[1], s[2], s[3], rets(s[4])))
            else: sts.append(("expr", s[1], rets(s[2]), s[3]))
        if blk[3] is not None:
            return ("block", blk[1], sts, exit_expr(blk[3]), blk[4])
        # no tail: the block ends by falling through with ()   (unless its last statement diverges)
        if sts and sts[-1][0] == "expr" and diverges(sts[-1][2]):
            return ("block", blk[1], sts, None, blk[4])
        return ("block", blk[1], sts, k_tail(("tuple", blk[1], []), blk[1]), blk[4])
    return on_block(b)


def diverges(e):
    e = strip(e) if e[0] in ("paren",) else e
    k = e[0]
    if k in ("return", "continue", "break"): return True
    if k == "block":
        if e[3] is not None: return diverges(e[3])
        return bool(e[2]) and e[2][-1][0] == "expr" and diverges(e[2][-1][2])
    if k == "if" and e[4] is not None: return diverges(e[3]) and diverges(e[4])
    if k == "match": return all(diverges(a[1]) for a in e[3])
    return False


# ---------------------------------------------------------------- the inliner
class FileIndex:
    """functions, methods and struct fields of one parsed file"""

    def __init__(self, parser, items, extra=()):
        """extra: (parser, items) of other files of the crate whose FREE functions may be called from this one"""
        self.parser = parser
        self.free, self.methods, self.fields, self.consts = {}, {}, {}, {}
        self.parser_of = {}
        for p2, its in extra:
            for i in its:
                if i[0] == "fn":
                    self.free.setdefault(i[3], []).append(i); self.parser_of[id(i)] = p2
        for i in items:
            if i[0] == "fn": self.free.setdefault(i[3], []).append(i)
            elif i[0] == "struct" and i[4]:
                for f, t in i[4]: self.fields[(i[3], f)] = t
            elif i[0] == "impl" and i[3]["trait"] is None:
                ty = i[3]["self"].split("<")[0]
                for f in i[4]:
                    if f[0] == "fn": self.methods.setdefault((ty, f[3]), []).append(f)
            elif i[0] == "skipped" and i[3] == "const":
                ts = i[4]      # const NAME : T = <int> ;
                txt = [t.text for t in ts]
                if len(txt) >= 7 and txt[0] == "const" and txt[2] == ":" and "=" in txt and ts[txt.index("=") + 1].kind == "num" \
                        and txt.index("=") + 2 == len(txt) - 1:
                    self.consts[txt[1]] = ts[txt.index("=") + 1].val[0]


class Inliner:
    def __init__(self, index, keep, adjacent_methods=()):
        """keep(type_or_None, name, call_node) -> True: the lowering interprets this call itself (by specification)"""
        self.ix, self.keep, self.adjacent = index, keep, set(adjacent_methods)
        self.n = 0
        self.stack = []
        self.inlined = []          # names of the helpers inlined (for the generated header)

    # ---- resolution ----
    def type_of_recv(self, recv, ty):
        r = strip(recv)
        if r[0] == "ref": r = strip(r[3])
        if is_path1(r, "self"): return ty
        if r[0] == "field" and is_path1(strip(r[2]), "self") and ty is not None:
            t = self.ix.fields.get((ty, r[3]))
            if t:
                t = t.lstrip("&").replace("mut ", "").split("<")[0].strip()
                if any(k[0] == t for k in self.ix.methods): return t
        return None

    def resolve(self, e, ty):
        """-> (fnitem, callee type, self-expression or None, args) or None"""
        k = e[0]
        if k == "call" and e[2][0] == "path" and all(isinstance(s, str) for s in e[2][2]):
            ns = e[2][2]
            if len(ns) == 1: cands, cty = self.ix.free.get(ns[0], []), None
            elif len(ns) == 2 and (ns[0] == "Self" or any(k2[0] == ns[0] for k2 in self.ix.methods)):
                cty = ty if ns[0] == "Self" else ns[0]
                cands = self.ix.methods.get((cty, ns[1]), [])
            else: return None
            name = ns[-1]
            if len(cands) != 1 or self.keep(cty, name, e): return None
            f = cands[0]
            args = list(e[3]); selfe = None
            if f[4] and f[4][0][0] == "self":
                if not args: return None
                selfe, args = args[0], args[1:]
            return f, cty, selfe, args
        if k == "mcall":
            rty = self.type_of_recv(e[2], ty)
            if rty is None: return None
            cands = self.ix.methods.get((rty, e[3]), [])
            if len(cands) != 1 or self.keep(rty, e[3], e): return None
            f = cands[0]
            if not (f[4] and f[4][0][0] == "self"): return None
            return f, rty, e[2], list(e[4])
        return None

    # ---- instantiating a helper ----
    def instance(self, res, ln):
        """-> (param lets, body block) of the helper, renamed apart, arguments bound, its own helper calls expanded"""
        f, cty, selfe, args = res
        name = f[3]
        if f[6] is None: raise Lost(ln, "helper `%s` has no body" % name)
        if (cty, name) in self.stack: raise Lost(ln, "recursive helper `%s` cannot be inlined" % name)
        if any(a.startswith("cfg(") for a in f[2]): raise Lost(f[1], "conditionally compiled helper `%s`" % name)
        params = [p for p in f[4] if p[0] != "self"]
        if len(params) != len(args): raise Lost(ln, "call of `%s` with %d arguments" % (name, len(args)))
        self.n += 1
        sfx = "__%s%d" % (name, self.n)
        body, pm = uniquify(self.ix.parser_of.get(id(f), self.ix.parser).fn_body(f), [p for p, _ in params], sfx)
        m, lets = {}, []
        if selfe is not None:
            s0 = strip(selfe)
            if s0[0] == "ref": s0 = strip(s0[3])
            if not is_path1(s0, "self"):
                if not is_place(s0): raise Lost(ln, "helper `%s` called on a computed receiver" % name)
                m["self"] = s0
        for (p, pty), a in zip(params, args):
            a0 = strip(a)
            if a0[0] == "ref" and is_place(a0[3]): a0 = strip(a0[3])
            pn = pm[p]
            if a0[0] == "closure":
                uses = count_uses(body, pn)
                if uses != 1: raise Lost(ln, "closure argument of `%s` is used %d times in the helper (must be called exactly once)" % (name, uses))
                m[pn] = a0
            elif is_place(a0) or is_path1(a0, "None"):
                m[pn] = a0
            else:
                lets.append(("let", ln, ("pbind", ln, pn, False), None, a))
        body = subst(body, m)
        self.stack.append((cty, name))
        try:
            body = self.block(body, cty, True, True, f[5] is None)
        finally:
            self.stack.pop()
        self.inlined.append(name)
        return lets, body

    # ---- expansion ----
    def call_in(self, e):
        """e is CALL, CALL?, unsafe { CALL }, ( CALL ) ...: -> (call node, has_try) or None"""
        e0 = strip(e); t = False
        if e0[0] == "try": t = True; e0 = strip(e0[2])
        if e0[0] in ("call", "mcall"): return e0, t
        return None

    def expr(self, e, ty):
        """expression-level: closures, nested blocks, `return CALL`, calls of helpers without early return"""
        k = e[0]
        if k == "block": return self.block(e, ty, False, False, False)
        if k == "return" and e[2] is not None:
            c = self.call_in(e[2])
            if c and not c[1]:
                res = self.resolve(c[0], ty)
                if res:
                    lets, body = self.instance(res, e[1])
                    body = map_exits(body, lambda v, ln: ("return", ln, v), lambda v, ln: ("return", ln, v))
                    return mkblock(e[1], lets + body[2], body[3])
        # eta-expand helper paths passed as arguments:  .ok_or_else(helper)  ->  .ok_or_else(|| helper())
        if k in ("mcall", "call"):
            args = e[4] if k == "mcall" else e[3]
            new = []
            for a in args:
                a0 = strip(a)
                if a0[0] == "path" and all(isinstance(s, str) for s in a0[2]):
                    probe = ("call", a0[1], a0, [])
                    r = self.resolve(probe, ty)
                    if r and not [p for p in r[0][4] if p[0] != "self"] and r[2] is None:
                        a = ("closure", a0[1], [], probe)
                new.append(a)
            e = (k, e[1], e[2], e[3], new) if k == "mcall" else (k, e[1], e[2], new)
        e = map_expr(e, lambda c: self.expr(c, ty))
        if e[0] in ("call", "mcall"):
            res = self.resolve(e, ty)
            if res:
                lets, body = self.instance(res, e[1])
                if contains_return(body):
                    raise Lost(e[1], "helper `%s` with an early return is called inside an expression" % res[0][3])
                return mkblock(e[1], lets + body[2], body[3])
        return e

    def block(self, b, ty, tailpos, top, unit_fn):
        sts, tail = self.stmts(list(b[2]), b[3], ty, tailpos, top, unit_fn, b[1])
        return ("block", b[1], sts, tail, b[4])

    def stmts(self, sts, tail, ty, tailpos, top, unit_fn, ln):
        if not sts:
            if tail is None: return [], None
            c = self.call_in(tail) if tailpos else None
            if c and not c[1]:
                res = self.resolve(c[0], ty)
                if res:                                   # tail call: the helper's returns are the caller's
                    lets, body = self.instance(res, tail[1])
                    return lets + body[2], body[3]
            if tailpos and tail[0] in ("if", "iflet", "match", "block"):
                return [], self.tail_branches(tail, ty, top, unit_fn)
            return [], self.expr(tail, ty)
        s = sts[0]
        rest, rtail = self.stmts(sts[1:], tail, ty, tailpos, top, unit_fn, ln)
        init = s[4] if s[0] == "let" else s[2]
        c = self.call_in(init) if (s[0] == "let" or s[3]) else None
        if c:
            res = self.resolve(c[0], ty)
            if res:
                lets, body = self.instance(res, s[1])
                early = contains_return(body)
                if early and not tailpos:
                    raise Lost(s[1], "helper `%s` with an early return is called from a block that is not in tail position" % res[0][3])

                def k_tail(v, l, ret=False):
                    val = ("try", l, v) if c[1] else v
                    first = ("let", l, s[2], s[3], val) if s[0] == "let" else ("expr", l, val, True)
                    if not ret: return mkblock(l, [first] + rest, rtail)
                    if rtail is None:
                        return mkblock(l, [first] + rest + [("expr", l, ("return", l, None), True)], None)
                    if diverges(rtail): return mkblock(l, [first] + rest, rtail)
                    return mkblock(l, [first] + rest + [("expr", l, ("return", l, rtail), True)], None)
                body = map_exits(body, k_tail, lambda v, l: k_tail(v, l, True))
                return lets + body[2], body[3]
        if s[0] == "let": return [("let", s[1], s[2], s[3], self.expr(s[4], ty))] + rest, rtail
        return [("expr", s[1], self.expr(s[2], ty), s[3])] + rest, rtail

    def tail_branches(self, e, ty, top, unit_fn):
        k = e[0]
        if k == "block": return self.block(e, ty, True, False, unit_fn)
        if k == "if":
            return ("if", e[1], self.expr(e[2], ty), self.block(e[3], ty, True, False, unit_fn),
                    None if e[4] is None else self.tail_branches(e[4], ty, top, unit_fn))
        if k == "iflet":
            return ("iflet", e[1], e[2], self.expr(e[3], ty), self.block(e[4], ty, True, False, unit_fn),
                    None if e[5] is None else self.tail_branches(e[5], ty, top, unit_fn))
        if k == "match":
            arms = []
            for a in e[3]:
                body = a[1]
                nb = self.tail_branches(body, ty, top, unit_fn) if body[0] in ("block", "if", "iflet", "match") else \
                    self.stmts([], body, ty, True, False, unit_fn, body[1])
                if isinstance(nb, tuple) and len(nb) == 2 and isinstance(nb[0], list):
                    nb = nb[1] if not nb[0] else mkblock(body[1], nb[0], nb[1])
                arms.append((a[0], nb) + ((self.expr(a[2], ty),) if len(a) == 3 else ()))
            return ("match", e[1], self.expr(e[2], ty), arms)
        return self.expr(e, ty)


# ---------------------------------------------------------------- normalisation
TRANSPARENT = ("verif_point",)


def is_transparent(s):
    return s[0] == "expr" and s[2][0] == "macro" and s[2][2] in TRANSPARENT


def is_ctor(e, name, n=1):
    return e[0] == "call" and is_path1(e[2], name) and len(e[3]) == n


def pat_ctor(p, names):
    """ptuplestruct with the given path, one sub-pattern -> sub-pattern, else None"""
    if p[0] == "ptuplestruct" and names_of(p[2])[-len(names):] == list(names) and len(p[3]) == 1: return p[3][0]
    return None


class Simplifier:
    def __init__(self, adjacent_methods=(), consts=None):
        self.adjacent = set(adjacent_methods)
        self.consts = consts or {}
        self.changed = False

    def run(self, b):
        for _ in range(50):
            self.changed = False
            b = self.block(b, in_for=False)
            if not self.changed: return b
        raise Lost(b[1], "astx: normalisation does not terminate")

    def mark(self, x):
        self.changed = True
        return x

    # ---- expressions ----
    def expr(self, e, in_for=False):
        k = e[0]
        if k == "block": return self.block(e, in_for)
        if k == "for": return ("for", e[1], e[2], self.expr(e[3]), self.block(e[4], in_for=True))
        if k == "closure": return ("closure", e[1], e[2], self.expr(e[3]))
        e = map_expr(e, lambda c: self.expr(c, in_for))
        k = e[0]
        if is_path1(e) and e[2][0] in self.consts:
            return self.mark(("lit", e[1], self.consts[e[2][0]], None))
        if k == "try":
            v = strip(e[2])
            if is_ctor(v, "Ok"): return self.mark(v[3][0])
            if is_ctor(v, "Err"): return self.mark(("return", e[1], v))
        if k == "call" and e[2][0] == "closure":
            return self.mark(beta(e[2], e[3], e[1]))
        if k == "call" and strip(e[2])[0] == "closure":
            return self.mark(beta(strip(e[2]), e[3], e[1]))
        if k == "match":
            sc = strip(e[2])
            # match on a literal Some(a) / None
            if is_ctor(sc, "Some") and is_place(sc[3][0]) or is_path1(sc, "None"):
                for a in e[3]:
                    if len(a) == 3: break
                    sub = pat_ctor(a[0], ("Some",))
                    if sub is not None and is_ctor(sc, "Some"):
                        if sub[0] == "pbind":
                            return self.mark(mkblock(e[1], [("let", e[1], sub, None, sc[3][0])], a[1]))
                        if sub[0] == "pwild": return self.mark(a[1])
                        break
                    if a[0][0] == "ppath" and names_of(a[0][2]) == ["None"] and is_path1(sc, "None"): return self.mark(a[1])
                    if a[0][0] == "pwild": return self.mark(a[1])
            # match O { Some(p) => A, None => return Err(X) }   =   { let p = O.ok_or_else(|| X)?; A }
            if len(e[3]) == 2 and all(len(a) == 2 for a in e[3]):
                sm = [a for a in e[3] if pat_ctor(a[0], ("Some",)) is not None]
                nn = [a for a in e[3] if a[0][0] == "ppath" and names_of(a[0][2]) == ["None"]]
                if len(sm) == 1 and len(nn) == 1:
                    r = strip(nn[0][1])
                    if r[0] == "block" and len(r[2]) == 1 and r[3] is None and r[2][0][0] == "expr": r = strip(r[2][0][2])
                    if r[0] == "return" and r[2] is not None and is_ctor(strip(r[2]), "Err"):
                        x = strip(r[2])[3][0]
                        val = ("try", e[1], ("mcall", e[1], e[2], "ok_or_else", [("closure", e[1], [], x)]))
                        return self.mark(mkblock(e[1], [("let", e[1], pat_ctor(sm[0][0], ("Some",)), None, val)], sm[0][1]))
                # match M { Some(x) if G => A, _ => B }  =  if let Some(x) = M.filter(|x| G) { A } else { B }
            if len(e[3]) == 2 and len(e[3][0]) == 3 and len(e[3][1]) == 2 and e[3][1][0][0] == "pwild":
                sub = pat_ctor(e[3][0][0], ("Some",))
                if sub is not None and sub[0] == "pbind":
                    scr = ("mcall", e[1], e[2], "filter", [("closure", e[1], [sub[2]], e[3][0][2])])
                    return self.mark(("iflet", e[1], e[3][0][0], scr, block_of(e[3][0][1]), block_of(e[3][1][1])))
        return e

    # ---- statement lists ----
    def block(self, b, in_for):
        sts = list(b[2]); tail = b[3]
        out = []
        i = 0
        while i < len(sts):
            s = sts[i]
            rest = sts[i + 1:]
            if s[0] == "let":
                init = strip(s[4]) if s[4][0] == "paren" else s[4]
                # let x = { stmts; e }   ->   stmts; let x = e      (names are unique after inlining)
                if init[0] == "block" and init[2] and init[3] is not None:
                    self.mark(None)
                    sts = sts[:i] + list(init[2]) + [("let", s[1], s[2], s[3], init[3])] + rest
                    continue
                if s[2][0] == "pbind" and not s[2][3] and is_path1(strip(init), s[2][2]):
                    self.mark(None)                       # let x = x;   (a re-binding of the same value)
                    sts = sts[:i] + rest
                    continue
                if s[2][0] == "pbind":
                    x = s[2][2]
                    after = mkblock(s[1], rest, tail)
                    uses = count_uses(after, x)
                    rebinds = bound_names(after).count(x)
                    # let f = <closure>;  used once
                    if strip(init)[0] == "closure" and uses == 1 and rebinds == 0:
                        self.mark(None)
                        nb = subst(after, {x: strip(init)})
                        sts = sts[:i] + list(nb[2]); tail = nb[3]
                        continue
                    # let x = R.m(..);  used once, in the next statement, for the listed methods m
                    c = strip(init)
                    if c[0] == "mcall" and c[3] in self.adjacent and uses == 1 and rebinds == 0:
                        j = 0
                        while j < len(rest) and is_transparent(rest[j]): j += 1
                        nxt = mkblock(s[1], rest[j:j + 1], tail if j >= len(rest) else None)
                        target = nxt if j < len(rest) else mkblock(s[1], [], tail)
                        if count_uses(target, x) == 1:
                            self.mark(None)
                            nb = subst(after, {x: c})
                            sts = sts[:i] + list(nb[2]); tail = nb[3]
                            continue
                    # let x = match M { .. diverging arm .. };  REST   ->   match M { P => { let x = V; REST } .. }
                    if init[0] == "match" and any(diverges(a[1]) for a in init[3]) and all(len(a) == 2 for a in init[3]):
                        self.mark(None)
                        arms = []
                        for a in init[3]:
                            if diverges(a[1]): arms.append(a); continue
                            v = strip(a[1])
                            pn = pattern_names(a[0], [])
                            if is_path1(v) and v[2][0] in pn and s[3] is None:
                                if v[2][0] == x: arms.append((a[0], mkblock(s[1], rest, tail)))
                                else: arms.append((rename_pattern(a[0], {v[2][0]: x}), mkblock(s[1], rest, tail)))
                            else:
                                arms.append((a[0], mkblock(s[1], [("let", s[1], s[2], s[3], a[1])] + rest, tail)))
                        m = ("match", init[1], init[2], arms)
                        sts = sts[:i]; tail = m
                        break
                out.append(("let", s[1], s[2], s[3], self.expr(s[4])))
            else:
                e = s[2]
                # flatten a plain (non-unsafe or unsafe) block statement whose content has become a statement list
                if e[0] == "block" and e[3] is None and s[0] == "expr" and False:
                    pass
                out.append(("expr", s[1], self.expr(e, in_for), s[3]))
            i += 1
        sts = out
        if tail is not None:
            t = tail
            # hoist:  Ok({ s; e }) / Some / Err / return {..} / unsafe { .. }
            h = self.hoist(t)
            if h is not None:
                self.mark(None)
                sts = sts + h[0]; tail = h[1]
            else:
                tail = self.expr(t, in_for)
        # statements: `return Ok({s; e});`
        res = []
        for s in sts:
            if s[0] == "expr":
                h = self.hoist(s[2])
                if h is not None:
                    self.mark(None)
                    res += h[0] + [("expr", s[1], h[1], s[3])]
                    continue
            res.append(s)
        sts = res
        # in a `for` body:  match M { P(v) => A, Q => continue }  as the last thing  ->  if let P(v) = M { A }
        if in_for:
            last = tail if tail is not None else (sts[-1][2] if sts and sts[-1][0] == "expr" else None)
            if last is not None and last[0] == "match" and len(last[3]) == 2 and all(len(a) == 2 for a in last[3]):
                cont = [a for a in last[3] if strip(a[1])[0] == "continue" or
                        (strip(a[1])[0] == "block" and len(strip(a[1])[2]) == 1 and strip(a[1])[2][0][2][0] == "continue")]
                other = [a for a in last[3] if a not in cont]
                if len(cont) == 1 and len(other) == 1:
                    self.mark(None)
                    il = ("iflet", last[1], other[0][0], last[2], block_of(other[0][1]), None)
                    if tail is not None: tail = il
                    else: sts = sts[:-1] + [("expr", sts[-1][1], il, False)]
        return ("block", b[1], sts, tail, b[4])

    def hoist(self, e):
        """e = C[{ stmts; v }] for a strict one-argument context C  ->  (stmts, C[v])"""
        k = e[0]
        if k == "paren":
            h = self.hoist(e[2]); return None if h is None else (h[0], ("paren", e[1], h[1]))
        if k == "return" and e[2] is not None:
            inner = e[2]
            if inner[0] == "block" and inner[2] and inner[3] is not None: return list(inner[2]), ("return", e[1], inner[3])
            h = self.hoist(inner); return None if h is None else (h[0], ("return", e[1], h[1]))
        if k == "call" and is_path1(e[2]) and e[2][2][0] in ("Ok", "Some", "Err") and len(e[3]) == 1:
            inner = e[3][0]
            if inner[0] == "block" and inner[2] and inner[3] is not None: return list(inner[2]), ("call", e[1], e[2], [inner[3]])
            h = self.hoist(inner); return None if h is None else (h[0], ("call", e[1], e[2], [h[1]]))
        if k == "block" and e[4] and e[3] is not None and not e[2]:        # unsafe { C[..] }
            h = self.hoist(e[3]); return None if h is None else (h[0], ("block", e[1], [], h[1], True))
        if k == "block" and e[4] and e[2] and e[3] is not None:            # unsafe { s; v } in value position
            return list(e[2]), ("block", e[1], [], e[3], True)
        if k == "block" and not e[4] and e[2] and e[3] is not None:        # { s; v } in value position (names are unique)
            return list(e[2]), e[3]
        return None


def prepare(parser, items, fnitem, ty, keep, adjacent_methods=(), extra=()):
    """the body of fnitem with the file's private helpers inlined and the idioms normalised; -> (block, inlined names)"""
    ix = FileIndex(parser, items, extra)
    inl = Inliner(ix, keep, adjacent_methods)
    inl.stack.append((ty, fnitem[3]))
    body = inl.block(parser.fn_body(fnitem), ty, True, True, fnitem[5] is None)
    body = Simplifier(adjacent_methods, ix.consts).run(body)
    return body, sorted(set(inl.inlined))
