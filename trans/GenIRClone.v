(* GenIRClone.v -- HAND-WRITTEN, fixed.  IR and interpreter for the clone paths of src/rodeo.rs:
   `clone_strings_into` (a loop over the source's strings whose body is a term of GenIRRodeo.v, run once per string with
   the string as "the string argument" and the position as the parameter idx) and the step lists of `try_clone` /
   `try_clone_from`.
   Trusted readings: the copy returned by `arena.store_str(s)` has the bytes of s (ArenaProofs.vec_store_post), so hashing /
   looking up the copy is hashing / looking up s; `Vec::with_capacity`, `try_reserve` and `HashMap::with_capacity_and_hasher`
   only pre-allocate (the allocator does not fail); `S::clone` of a BuildHasher yields a hasher computing the same function
   -- which INSTANCE fills the table and which is stored is tracked ([hsrc]): the model has one hash function, that of the
   source, so a table filled by, or a clone storing, another instance is outside the model ([None]);
   `Capacity::default().bytes` = Rodeo.default_bytes; `Arena::new` = Arena.arena_new (its Layout refusal above isize::MAX is
   the subject of ArenaGenProofs.gen_new_refuses and is outside the model's r_clone). *)
From Lasso Require Import Base Arena Rodeo.
From LassoGen Require Import GenPrelude GenIR GenIRRodeo.
Open Scope N_scope.

(* which hasher instance *)
Inductive hsrc := HTargetOld | HSourceItself | HSourceClone.

Inductive limexpr := LimMaxSourceLimitCap | LimOther.       (* max(self.arena.max_memory_usage, cap.get()) *)

Inductive cstep :=
| KClear                                   (* self.clear() *)
| KSetHasher (h : hsrc)                    (* self.hasher = <h> *)
| KReserveStrings                          (* self.strings.try_reserve(source.strings.len()).map_err(..)? *)
| KReserveMap                              (* self.map.raw_table_mut().try_reserve(source.map.len(), |_| unreachable!()).map_err(..)? *)
| KFillTarget                              (* clone_strings_into(&source.strings, &mut self.arena, &mut self.strings, &mut self.map, &self.hasher)? *)
| KOkUnit                                  (* Ok(()) *)
| KLetCapSumOrDefault                      (* let cap = NonZeroUsize::new(sum of the strings' lengths).unwrap_or(Capacity::default().bytes) *)
| KNewArena (l : limexpr)                  (* let mut arena = Arena::new(cap, <l>)? *)
| KLetFresh (h : hsrc)                     (* let (mut strings, mut map, hasher) = (Vec::with_capacity(..), StringMap::with_capacity_and_hasher(.., ()), <h>) *)
| KFillFresh (h : hsrc)                    (* clone_strings_into(&self.strings, &mut arena, &mut strings, &mut map, &<h>)? *)
| KBuild (h : hsrc).                       (* Ok(Self { map, hasher: <h>, strings, arena }) *)

Section Interp.
  Variable hash : str -> N.
  Variable cand : N -> N -> bool.
  Variable growf : N -> bool.
  Variable keycap : N.

  (* clone_strings_into: the loop *)
  Fixpoint clone_loop (body : rfundef) (src : list str) (idx : N) (dst : rodeo) : option (rodeo * cres) * Prop :=
    match src with
    | [] => (Some (dst, COk), True)
    | s :: rest =>
        match zip_args (rf_params body) [idx] with
        | Some nums =>
            match rexec hash cand growf keycap 0 s (rf_body body) (mkRs dst nums [] None True) with
            | RNormal (mkRs r' _ _ None ok) =>
                let (res, ok') := clone_loop body rest (idx + 1) r' in (res, ok /\ ok')
            | RRet r' (RvRes (Err e)) ok => (Some (r', CErr e), ok)
            | RPanicked r' ok => (Some (r', CPanic), ok)
            | _ => (None, False)
            end
        | None => (None, False)
        end
    end.

  Record cstate := mkCs {
    cs_tgt : rodeo;                  (* the interner being filled *)
    cs_stored : hsrc;                (* which hasher it holds *)
    cs_cap : option N;               (* try_clone: the capacity computed *)
    cs_fresh : option hsrc;          (* try_clone: the local `hasher` *)
    cs_ok : Prop }.

  (* result: None = outside the model (wrong hasher instance, ill-formed step list); Some o = the model-level result *)
  Fixpoint run_steps (body : rfundef) (cs : list str) (srclimit : N) (steps : list cstep) (st : cstate)
    : option (rodeo * cres) * Prop :=
    let '(mkCs t stored cap fresh ok) := st in
    match steps with
    | [] => (None, False)
    | KClear :: k => run_steps body cs srclimit k (mkCs (r_clear t) stored cap fresh ok)
    | KSetHasher h :: k => run_steps body cs srclimit k (mkCs t h cap fresh ok)
    | KReserveStrings :: k => run_steps body cs srclimit k st
    | KReserveMap :: k =>       (* the re-hash callback is unreachable!(): on a non-empty table a resize would panic *)
        match rmap t with
        | [] => run_steps body cs srclimit k st
        | _ => (None, False)
        end
    | KFillTarget :: k =>
        match stored with
        | HSourceClone =>
            match clone_loop body cs 0 t with
            | (Some (t', COk), q) => run_steps body cs srclimit k (mkCs t' stored cap fresh (ok /\ q))
            | (Some (t', e), q) => (Some (t', e), ok /\ q)          (* `?`: the error is returned, the target keeps the prefix *)
            | (None, _) => (None, False)
            end
        | _ => (None, False)
        end
    | KOkUnit :: [] => (Some (t, COk), ok)
    | KLetCapSumOrDefault :: k =>
        let total := sum_N (map slen cs) in
        run_steps body cs srclimit k (mkCs t stored (Some (if total =? 0 then default_bytes else total)) fresh ok)
    | KNewArena LimMaxSourceLimitCap :: k =>
        match cap with
        | Some c => run_steps body cs srclimit k (mkCs (rodeo_new c (N.max srclimit c)) stored cap fresh ok)
        | None => (None, False)
        end
    | KLetFresh h :: k => run_steps body cs srclimit k (mkCs t stored cap (Some h) ok)
    | KFillFresh h :: k =>
        match h, fresh with
        | HSourceClone, Some HSourceClone =>
            match clone_loop body cs 0 t with
            | (Some (t', COk), q) => run_steps body cs srclimit k (mkCs t' stored cap fresh (ok /\ q))
            | (Some (t', e), q) => (Some (t', e), ok /\ q)
            | (None, _) => (None, False)
            end
        | _, _ => (None, False)
        end
    | KBuild HSourceClone :: [] =>
        match fresh with Some HSourceClone => (Some (t, COk), ok) | _ => (None, False) end
    | _ => (None, False)
    end.

  (* try_clone_from(tgt, src) / try_clone(src); None when a stored reference of the source is dangling (r_clone's None) *)
  Definition run_clone_from (body : rfundef) (steps : list cstep) (tgt src : rodeo) : option (option (rodeo * cres) * Prop) :=
    match contents (rstrs src) (rar src) with
    | None => None
    | Some cs => Some (run_steps body cs (limit (rar src)) steps (mkCs tgt HTargetOld None None True))
    end.
  Definition run_clone (body : rfundef) (steps : list cstep) (src : rodeo) : option (option (rodeo * cres) * Prop) :=
    match contents (rstrs src) (rar src) with
    | None => None
    | Some cs => Some (run_steps body cs (limit (rar src)) steps (mkCs src HSourceItself None None True))
    end.
End Interp.
