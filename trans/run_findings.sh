#!/bin/sh
# run_findings.sh <repo> <workdir> -- INFORMATIONAL: `prop.sh findings`: ArenaFindings.v (the repaired counterparts of the
# Layout finding) against the current source
exec "$(dirname "$0")/prop.sh" findings "$@"
