#!/bin/sh
# sanity_f5.sh [repo] [workroot] -- finding F5 (Deserialize skipped a repeated string while the position counter went on,
# so later keys pointed past the strings vector; repaired: a repeated string is an error) as a sanity check of the serde
# chain, NOT a deliverable theorem.  A scratch copy of <repo>/src gets the `RawEntryMut::Occupied(..)` arm of
# `impl Deserialize for Rodeo` changed back to `continue;` and the script shows:
#   (1) the translator still understands it, and the theorems gen_de_rodeo_eq / gen_de_rodeo_safe FAIL (prop.sh exit 1);
#   (2) LegacySanitySerde.v compiles against it: the generated code IS de_rodeo_legacy, and ["a";"a";"b"] violates the obligation;
#   (3) LegacySanitySerde.v does NOT compile against the current source.
set -u
HERE=$(cd "$(dirname "$0")" && pwd)
REPO=${1:-/repo}
ROOT=${2:-/tmp/serde-test/f5}
COQ=${VERIF_COQ_DIR:-/verif/coq}
rm -rf "$ROOT"; mkdir -p "$ROOT/repo"; cp -r "$REPO/src" "$ROOT/repo/src" || exit 2
python3 - "$ROOT/repo/src/rodeo.rs" <<'PY' || { echo "sanity_f5: cannot apply the edit"; exit 2; }
import re, sys
p = sys.argv[1]; t = open(p).read()
a = t.index("impl<'de, K: Key")
new, n = re.subn(r"RawEntryMut::Occupied\(\.\.\) => \{\s*return Err\(serde::de::Error::custom\(\s*\"[^\"]*\",?\s*\)\);\s*\}",
                 "RawEntryMut::Occupied(..) => {\n                    continue;\n                }", t[a:], count=1)
assert n == 1
open(p, "w").write(t[:a] + new)
PY
fail=0
echo "== (1) proofs against the unrepaired loop: translator ok, the theorems of Rodeo's deserialiser fail"
"$HERE/prop.sh" serde "$ROOT/repo" "$ROOT/w" > "$ROOT/w.log" 2>&1; rc=$?
[ $rc -eq 1 ] || { echo "UNEXPECTED: prop.sh serde exits $rc (wanted 1)"; fail=1; }
grep -E "^(FAILED|LOST)" "$ROOT/w.log" | cut -c1-100
for t in gen_de_rodeo_eq gen_de_rodeo_safe; do
  grep -q "^FAILED $t " "$ROOT/w.log" || { echo "UNEXPECTED: $t did not fail"; fail=1; }
done
grep -q "^PROVED gen_de_reader_eq" "$ROOT/w.log" || { echo "UNEXPECTED: the (unchanged) reader no longer proves"; fail=1; }
echo "== (2) LegacySanitySerde.v against the unrepaired loop: must compile (generated = de_rodeo_legacy; witness [a;a;b])"
cp "$HERE/LegacySanitySerde.v" "$ROOT/w/"
( cd "$ROOT/w" && timeout 300 coqc -Q "$COQ" Lasso -Q . LassoGen LegacySanitySerde.v ) > "$ROOT/legacy.log" 2>&1 \
  && [ "$(grep -c 'Closed under the global context' "$ROOT/legacy.log")" = 3 ] \
  && echo "PROVED f5_legacy_loop_eq f5_legacy_eq f5_legacy_obligation_fails" \
  || { echo "UNEXPECTED: LegacySanitySerde.v fails"; cat "$ROOT/legacy.log"; fail=1; }
echo "== (3) LegacySanitySerde.v against the current source: must NOT compile"
"$HERE/prop.sh" serde "$REPO" "$ROOT/w0" > "$ROOT/w0.log" 2>&1 || { echo "UNEXPECTED: current source fails"; fail=1; }
cp "$HERE/LegacySanitySerde.v" "$ROOT/w0/"
( cd "$ROOT/w0" && timeout 300 coqc -Q "$COQ" Lasso -Q . LassoGen LegacySanitySerde.v ) > "$ROOT/legacy0.log" 2>&1 \
  && { echo "UNEXPECTED: LegacySanitySerde.v compiles against the repaired source"; fail=1; } \
  || echo "rejected, as it must be: $(grep -m1 -A1 '^File' "$ROOT/legacy0.log" | tr '\n' ' ' | cut -c1-150)"
[ $fail -eq 0 ] && echo "sanity_f5: OK" || echo "sanity_f5: FAIL"
exit $fail
