(* ArenaGenProofs.v -- HAND-WRITTEN ONCE (not generated).  For ALL inputs: the IR terms that rust2coq.py
   regenerates from src/arenas/bucket.rs and single_threaded.rs (ArenaGen.v), run by the interpreter of
   GenIR.v, compute exactly the hand-written model Lasso.Arena -- and on the stated domain every
   obligation the interpreter collects (no overflow / underflow, NonZero arguments non-zero,
   debug_assert!s true, Vec::insert index in range, copy destination inside the allocation, each callee's
   precondition) holds.  Every theorem is proved by the one tactic [gen_arena_tac]; the script does not
   follow the shape of the generated terms. *)
From Lasso Require Import Base Arena ArenaProofs.
From LassoGen Require Import GenPrelude GenIR GenRequest GenTactics ArenaGen.
Open Scope N_scope.

(* ---------------- Bucket (src/arenas/bucket.rs) ---------------- *)

(* exact in both directions: a Layout of cap bytes exists iff cap <= isize::MAX *)
Theorem gen_with_capacity_eq : forall id cap, cap <= isize_max ->
  fst (run_wc gen_with_capacity id cap) = Some (Ok (fresh_block id cap)).
Proof. gen_arena_tac. Qed.
Theorem gen_with_capacity_refuses : forall id cap, isize_max < cap ->
  fst (run_wc gen_with_capacity id cap) = Some (Err FailedAllocation).
Proof. gen_arena_tac. Qed.
(* i.e. with_capacity meets the specification by which its callers are interpreted *)
Theorem gen_with_capacity_spec : forall id cap,
  fst (run_wc gen_with_capacity id cap) = Some (wc_spec id cap).
Proof. gen_arena_tac. Qed.
Theorem gen_with_capacity_safe : forall id cap, wc_pre cap ->
  snd (run_wc gen_with_capacity id cap).
Proof. gen_arena_tac. Qed.

Theorem gen_free_elements_eq : forall b s,
  as_bnum (fst (run_bfun gen_free_elements b s [])) = Some (b, free_spec b).
Proof. gen_arena_tac. Qed.
Theorem gen_free_elements_safe : forall b s, free_pre b ->
  snd (run_bfun gen_free_elements b s []).
Proof. gen_arena_tac. Qed.

Theorem gen_is_full_eq : forall b s,
  as_bbool (fst (run_bfun gen_is_full b s [])) = Some (b, is_full_spec b) /\ snd (run_bfun gen_is_full b s []).
Proof. gen_arena_tac. Qed.

Theorem gen_bucket_clear_eq : forall b s,
  as_bunit (fst (run_bfun gen_bucket_clear b s [])) = Some (block_clear b) /\ snd (run_bfun gen_bucket_clear b s []).
Proof. gen_arena_tac. Qed.

Theorem gen_push_slice_eq : forall b s,
  as_bref (fst (run_bfun gen_push_slice b s [])) = Some (Arena.push_slice b s).
Proof. gen_arena_tac. Qed.
(* the unchecked copy stays inside the bucket's allocation whenever the caller keeps push_slice's contract *)
Theorem gen_push_slice_safe : forall b s, push_pre b s ->
  snd (run_bfun gen_push_slice b s []).
Proof. gen_arena_tac. Qed.

(* ---------------- Arena (src/arenas/single_threaded.rs) ---------------- *)

Theorem gen_new_eq : forall cap lim, cap <= isize_max ->
  fst (run_new gen_new [cap; lim]) = Some (Ok (arena_new cap lim)).
Proof. gen_arena_tac. Qed.
Theorem gen_new_refuses : forall cap lim, isize_max < cap ->
  fst (run_new gen_new [cap; lim]) = Some (Err FailedAllocation).
Proof. gen_arena_tac. Qed.
Theorem gen_new_safe : forall cap lim, wc_pre cap ->
  snd (run_new gen_new [cap; lim]).
Proof. gen_arena_tac. Qed.

Theorem gen_memory_usage_eq : forall a s,
  as_num (fst (run_fun gen_memory_usage a s [])) = Some (a, usage a) /\ snd (run_fun gen_memory_usage a s []).
Proof. gen_arena_tac. Qed.

Theorem gen_clear_eq : forall a s,
  as_unit (fst (run_fun gen_clear a s [])) = Some (arena_clear a) /\ snd (run_fun gen_clear a s []).
Proof. gen_arena_tac. Qed.

Theorem gen_allocate_memory_eq : forall a s n,
  as_unit_result (fst (run_fun gen_allocate_memory a s [n])) = Some (alloc_spec a n).
Proof. gen_arena_tac. Qed.
Theorem gen_allocate_memory_safe : forall a s n, alloc_pre a n ->
  snd (run_fun gen_allocate_memory a s [n]).
Proof. gen_arena_tac. Qed.

(* store_str computes vec_store exactly when the bucket the model allocates (if any) can be described by a Layout *)
Theorem gen_store_str_eq_exact : forall a s,
  (forall c d, vec_alloc_request a s = Some (c, d) -> c <= isize_max) ->
  as_str_result (fst (run_fun gen_store_str a s [])) = Some (Arena.vec_store a s).
Proof. gen_arena_tac. Qed.

(* ... in particular on the customary domain *)
Theorem gen_store_str_eq : forall a s, 2 * bucket_cap a <= isize_max -> slen s <= isize_max ->
  as_str_result (fst (run_fun gen_store_str a s [])) = Some (Arena.vec_store a s).
Proof. gen_arena_tac. Qed.

(* ... and otherwise with_capacity refuses AFTER allocate_memory has booked the bytes (and, in the doubling branch,
   after bucket_capacity has been doubled): Err(FailedAllocation), no bucket added, usage (and capacity) changed *)
Theorem gen_store_str_failed_alloc_leaves_usage : forall a s c d,
  vec_alloc_request a s = Some (c, d) -> isize_max < c ->
  as_str_result (fst (run_fun gen_store_str a s [])) = Some (after_failed_alloc a c d, Err FailedAllocation).
Proof. gen_arena_tac. Qed.

(* what vec_alloc_request means, in terms of the model *)
Theorem vec_alloc_request_spec : forall a s c d, vec_alloc_request a s = Some (c, d) ->
  exists a' r, Arena.vec_store a s = (a', Ok r) /\ usage a' = usage a + c /\
               bucket_cap a' = (if d then c else bucket_cap a) /\ next_bid a' = next_bid a + 1.
Proof.
  intros a s c d. unfold vec_alloc_request, vec_store, vec_store_gen.
  destruct s as [|x s0]; [discriminate|]. set (s := x :: s0).
  pose proof (grow_request_spec vec_place a s) as G.
  assert (R : grow_request a s = Some (c, d) ->
              exists a' r, grow vec_place true a s = (a', Ok r) /\ usage a' = usage a + c /\
                           bucket_cap a' = (if d then c else bucket_cap a) /\ next_bid a' = next_bid a + 1).
  { intros E. rewrite E in G. destruct G as (b & r & -> & _). eexists _, _. split; [reflexivity|]. cbn. auto. }
  destruct (last_opt (blocks a)) as [b|]; [|exact R].
  destruct (slen s <=? bcap b - bused b); [discriminate|exact R].
Qed.

(* on well-formed arenas every collected obligation holds -- no condition on Layout sizes any more; in particular every
   push_slice call site establishes push_pre: "the unchecked copy is guarded", for the code as written *)
Theorem gen_store_str_safe : forall a s, ArenaInv a -> arena_typed a -> store_dom a s ->
  snd (run_fun gen_store_str a s []).
Proof. unfold store_dom. gen_arena_tac. Qed.

Print Assumptions gen_with_capacity_eq.
Print Assumptions gen_with_capacity_refuses.
Print Assumptions gen_with_capacity_spec.
Print Assumptions gen_with_capacity_safe.
Print Assumptions gen_free_elements_eq.
Print Assumptions gen_free_elements_safe.
Print Assumptions gen_is_full_eq.
Print Assumptions gen_bucket_clear_eq.
Print Assumptions gen_push_slice_eq.
Print Assumptions gen_push_slice_safe.
Print Assumptions gen_new_eq.
Print Assumptions gen_new_refuses.
Print Assumptions gen_new_safe.
Print Assumptions gen_memory_usage_eq.
Print Assumptions gen_clear_eq.
Print Assumptions gen_allocate_memory_eq.
Print Assumptions gen_allocate_memory_safe.
Print Assumptions gen_store_str_eq_exact.
Print Assumptions gen_store_str_eq.
Print Assumptions gen_store_str_failed_alloc_leaves_usage.
Print Assumptions vec_alloc_request_spec.
Print Assumptions gen_store_str_safe.
