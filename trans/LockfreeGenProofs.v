(* LockfreeGenProofs.v -- HAND-WRITTEN ONCE (not generated).  The one-thread view of src/arenas/lockfree.rs,
   regenerated as IR terms (LockfreeGen.v) and run by the interpreter of GenIRLf.v, computes the hand-written
   model Arena.lf_store / alloc_spec / arena_new / set_limit for ALL inputs, and on the stated domain every
   collected obligation holds.  One generic tactic, [gen_lf_tac]. *)
From Lasso Require Import Base Arena ArenaProofs.
From LassoGen Require Import GenPrelude GenIR GenRequest GenIRLf GenTactics GenTacticsLf LockfreeGen.
Open Scope N_scope.

(* ---------------- accessors, constructor, setters ---------------- *)

Theorem gen_lf_current_memory_usage_eq : forall a s,
  as_num (fst (run_lfun gen_lf_current_memory_usage a s [])) = Some (a, usage a)
  /\ snd (run_lfun gen_lf_current_memory_usage a s []).
Proof. gen_lf_tac. Qed.

Theorem gen_lf_get_max_memory_usage_eq : forall a s,
  as_num (fst (run_lfun gen_lf_get_max_memory_usage a s [])) = Some (a, limit a)
  /\ snd (run_lfun gen_lf_get_max_memory_usage a s []).
Proof. gen_lf_tac. Qed.

(* AtomicBucket::with_capacity is used by specification (ab_wc_spec: a layout exists iff cap <= ab_cap_max) *)
Theorem gen_lf_new_eq : forall cap lim, cap <= ab_cap_max ->
  fst (run_lnew gen_lf_new [cap; lim]) = Some (Ok (arena_new cap lim)).
Proof. gen_lf_tac. Qed.
Theorem gen_lf_new_refuses : forall cap lim, ab_cap_max < cap ->
  fst (run_lnew gen_lf_new [cap; lim]) = Some (Err FailedAllocation).
Proof. gen_lf_tac. Qed.
Theorem gen_lf_new_safe : forall cap lim, wc_pre cap ->
  snd (run_lnew gen_lf_new [cap; lim]).
Proof. gen_lf_tac. Qed.

Theorem gen_lf_set_max_memory_usage_eq : forall a s m,
  as_unit (fst (run_lfun gen_lf_set_max_memory_usage a s [m])) = Some (set_limit a m)
  /\ snd (run_lfun gen_lf_set_max_memory_usage a s [m]).
Proof. gen_lf_tac. Qed.

Theorem gen_lf_set_bucket_capacity_eq : forall a s c,
  as_unit (fst (run_lfun gen_lf_set_bucket_capacity a s [c]))
  = Some (mkArena (blocks a) c (usage a) (limit a) (next_bid a)).
Proof. gen_lf_tac. Qed.
Theorem gen_lf_set_bucket_capacity_safe : forall a s c, set_cap_pre c ->
  snd (run_lfun gen_lf_set_bucket_capacity a s [c]).
Proof. gen_lf_tac. Qed.

(* ---------------- allocate_memory: the fetch_update closure is the budget check ---------------- *)

Theorem gen_lf_allocate_memory_eq : forall a s n,
  as_unit_result (fst (run_lfun gen_lf_allocate_memory a s [n])) = Some (alloc_spec a n).
Proof. gen_lf_tac. Qed.
Theorem gen_lf_allocate_memory_safe : forall a s n, alloc_pre a n ->
  snd (run_lfun gen_lf_allocate_memory a s [n]).
Proof. gen_lf_tac. Qed.

(* ---------------- store_str ---------------- *)

Theorem gen_lf_store_str_eq_exact : forall a s,
  (forall c d, lf_alloc_request a s = Some (c, d) -> c <= ab_cap_max) ->
  as_str_result (fst (run_lfun gen_lf_store_str a s [])) = Some (Arena.lf_store a s).
Proof. gen_lf_tac. Qed.

Theorem gen_lf_store_str_eq : forall a s, 2 * bucket_cap a <= ab_cap_max -> slen s <= ab_cap_max ->
  as_str_result (fst (run_lfun gen_lf_store_str a s [])) = Some (Arena.lf_store a s).
Proof. gen_lf_tac. Qed.

(* with_capacity refuses AFTER allocate_memory has booked the bytes (and set_bucket_capacity has doubled the capacity) *)
Theorem gen_lf_store_str_failed_alloc_leaves_usage : forall a s c d,
  lf_alloc_request a s = Some (c, d) -> ab_cap_max < c ->
  as_str_result (fst (run_lfun gen_lf_store_str a s [])) = Some (after_failed_alloc a c d, Err FailedAllocation).
Proof. gen_lf_tac. Qed.

Theorem lf_alloc_request_spec : forall a s c d, lf_alloc_request a s = Some (c, d) ->
  exists a' r, Arena.lf_store a s = (a', Ok r) /\ usage a' = usage a + c /\
               bucket_cap a' = (if d then c else bucket_cap a) /\ next_bid a' = next_bid a + 1.
Proof.
  intros a s c d. unfold lf_alloc_request, lf_store, lf_store_gen.
  destruct s as [|x s0]; [discriminate|]. set (s := x :: s0).
  pose proof (grow_request_spec lf_place a s) as G.
  destruct (lf_first_fit (blocks a) s) as [[bs r]|]; [discriminate|].
  intros E. rewrite E in G. destruct G as (b & r & -> & _). eexists _, _. split; [reflexivity|]. cbn. auto.
Qed.

(* no condition on Layout sizes any more *)
Theorem gen_lf_store_str_safe : forall a s, ArenaInv a -> arena_typed a -> store_dom a s ->
  snd (run_lfun gen_lf_store_str a s []).
Proof. gen_lf_tac. Qed.

Print Assumptions gen_lf_current_memory_usage_eq.
Print Assumptions gen_lf_get_max_memory_usage_eq.
Print Assumptions gen_lf_new_eq.
Print Assumptions gen_lf_new_refuses.
Print Assumptions gen_lf_new_safe.
Print Assumptions gen_lf_set_max_memory_usage_eq.
Print Assumptions gen_lf_set_bucket_capacity_eq.
Print Assumptions gen_lf_set_bucket_capacity_safe.
Print Assumptions gen_lf_allocate_memory_eq.
Print Assumptions gen_lf_allocate_memory_safe.
Print Assumptions gen_lf_store_str_eq_exact.
Print Assumptions gen_lf_store_str_eq.
Print Assumptions gen_lf_store_str_failed_alloc_leaves_usage.
Print Assumptions lf_alloc_request_spec.
Print Assumptions gen_lf_store_str_safe.
