(* LegacySanitySerde.v -- HAND-WRITTEN sanity check, compiled by sanity_f5.sh against a scratch copy of src/rodeo.rs in
   which the `RawEntryMut::Occupied(..)` arm of Deserialize SKIPS the repeated string (`continue`) instead of returning an
   error: defect F5, the unrepaired code.  NOT a deliverable theorem and NOT expected to compile against the current
   source.  The generated loop then IS the model of the unrepaired code (de_rodeo_legacy), and the obligation of the
   table closures (every key indexes the strings vector) is violated by the document ["a"; "a"; "b"]. *)
From Lasso Require Import Base Arena Rodeo.
From LassoGen Require Import GenPrelude GenIR GenIRRodeo GenIRSerde GenTactics GenTacticsRodeo SerdeGen.
Open Scope N_scope.

Ltac serde_run :=
  repeat (cbn [ds_idx ds_body ds_bytes ds_limit dblock fold_right dexec lookup neval String.eqb Ascii.eqb Bool.eqb
               d_r d_nums d_refs d_probes d_vac d_ok rmap rstrs rar fst snd];
          unfold try_key; rodeo_step).

Theorem f5_legacy_loop_eq : forall hash cand growf keycap l pos r,
  fst (de_loop hash cand growf keycap (ds_idx gen_de_rodeo) (ds_body gen_de_rodeo) l pos r)
  = Some (de_list_loop hash cand growf keycap false l pos r).
Proof.
  intros hash cand growf keycap.
  induction l as [|s rest IH]; intros pos r; [reflexivity|].
  cbn [de_loop de_list_loop]. repeat autounfold with arenagen.
  serde_run; cbn;
  try match goal with
      | |- context [de_loop ?h ?c ?g ?k ?i ?b rest ?p ?d] =>
          specialize (IH p d); repeat autounfold with arenagen in IH; cbn [ds_idx ds_body dblock fold_right] in IH;
          destruct (de_loop h c g k i b rest p d) as [res okr]; cbn in IH |- *; exact IH
      end;
  try reflexivity; try (exfalso; lia).
Qed.

Theorem f5_legacy_eq : forall hash cand growf keycap l,
  fst (run_deser hash cand growf keycap gen_de_rodeo l) = Some (de_rodeo_legacy hash cand growf keycap l).
Proof.
  intros. unfold run_deser, de_rodeo_legacy, de_rodeo_gen, doc_bytes.
  replace (ds_bytes gen_de_rodeo) with BSumOrDefault by reflexivity.
  replace (ds_limit gen_de_rodeo) with DLimUsizeMax by reflexivity.
  cbn [bytes_of limit_of]. apply f5_legacy_loop_eq.
Qed.

(* ["a"; "a"; "b"]: "b" gets key 2 while the strings vector has 2 entries *)
Theorem f5_legacy_obligation_fails :
  ~ snd (run_deser (fun _ => 0) (fun _ _ => true) (fun _ => false) 4294967295 gen_de_rodeo [[97];[97];[98]]).
Proof.
  intros H. vm_compute in H.
  repeat match goal with H : _ /\ _ |- _ => destruct H end.
  repeat match goal with
         | H : Forall _ (_ :: _) |- _ => inversion H; clear H; subst
         end;
  repeat match goal with H : _ = Lt |- _ => try discriminate H; clear H end.
Qed.

Print Assumptions f5_legacy_loop_eq.
Print Assumptions f5_legacy_eq.
Print Assumptions f5_legacy_obligation_fails.
