#!/bin/sh
# run_lockfree.sh <repo> <workdir> -- kept for compatibility: `prop.sh lockfree <repo> <workdir>` (exit 0 iff everything is proved)
exec "$(dirname "$0")/prop.sh" lockfree "$@"
