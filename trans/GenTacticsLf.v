(* GenTacticsLf.v -- HAND-WRITTEN, fixed.  [gen_lf_tac]: the generic tactic of GenTactics.v extended to the lock-free
   IR (GenIRLf.v): the model's first-fit search is rewritten to [find_fit] (lemma lf_first_fit_find), the symbolic
   execution additionally splits on the result of [find_fit], and Forall facts about the bucket list are
   instantiated at every bucket the execution has met. *)
From Lasso Require Import Base Arena ArenaProofs.
From LassoGen Require Import GenPrelude GenIR GenRequest GenIRLf GenTactics.
Open Scope N_scope.

Ltac unfold_lf :=
  unfold run_lfun, run_lnew, as_str_result, as_unit_result, as_unit, as_num in *;
  repeat autounfold with arenagen in *;
  unfold lf_store, lf_store_legacy, lf_store_gen, grow, lf_place, arena_new, set_limit,
         lf_alloc_request, grow_request, after_failed_alloc in *.

Ltac lf_step :=
  match goal with
  | |- context [find_fit ?l ?n] => destruct (find_fit l n) as [[[? ?] ?]|] eqn:?
  | |- context [N.ltb ?a ?b] => destruct (N.ltb_spec a b); try (exfalso; lia)
  | |- context [N.leb ?a ?b] => destruct (N.leb_spec a b); try (exfalso; lia)
  | |- context [N.eqb ?a ?b] => destruct (N.eqb_spec a b); try (exfalso; lia)
  end.

Ltac lf_exec :=
  repeat (cbn; unfold alloc_spec, ab_wc_spec, push_slice, final_arena; lf_step);
  cbn; unfold alloc_spec, ab_wc_spec, push_slice, final_arena, with_blocks, fresh_block; cbn.

(* every Forall fact about a list, instantiated at every known member of that list *)
Ltac use_foralls :=
  repeat match goal with
  | H : In ?x ?l |- _ =>
      lazymatch goal with
      | _ : bcap x <= sum_N (map bcap l) |- _ => fail
      | _ => pose proof (bcap_le_sum l x H)
      end
  end;
  repeat match goal with
  | F : Forall _ ?l |- _ =>
      repeat match goal with
      | H : In ?x l |- _ => pose proof (proj1 (Forall_forall _ _) F x H); revert H
      end;
      intros; clear F
  end; cbv beta in *.

Ltac lf_leaf :=
  lazymatch goal with
  | |- Forall _ _ => apply Forall_forall; let b := fresh "b" in let Hb := fresh "Hb" in intros b Hb
  | |- _ => idtac
  end;
  use_foralls; split_hyps; try solve [ exact I | eq_close | lia | discriminate ].

Ltac lf_finish :=
  repeat match goal with
  | H : find_fit _ _ = Some _ |- _ => apply find_fit_spec in H
  end;
  leaf_intros;
  repeat match goal with
  | H : find_fit _ _ = Some _ |- _ => apply find_fit_spec in H
  end;
  unfold store_dom, try_inc_pre, set_cap_pre, ab_cap_max in *; unfold_props; split_hyps;
  cbn [bid bcap bused bdata blocks bucket_cap usage limit next_bid];
  rewrite ?repeat_length, ?N2Nat.id;
  first [ eq_close
        | solve [ repeat match goal with |- _ /\ _ => split | |- True => exact I end; lf_leaf ]
        | idtac ].

Ltac gen_lf_tac :=
  intros; unfold_lf; revert_requests; rewrite ?lf_first_fit_find;
  try match goal with s : str |- _ => case_string s end;
  lf_exec; lf_finish.
