(* ItersGenProofs.v -- HAND-WRITTEN ONCE (not generated).  The iterator code of src/util.rs, regenerated as terms of the
   IR of GenIRIters.v (ItersGen.v) and run with the STD semantics of slice::Iter / Enumerate / Option::map / Option::copied,
   is the model's [Rodeo.run_iter]:  for ALL strs, a, windows lo <= hi <= |strs| and every op.
     keyed = true   Iter     (items carry the key index; iter_element panics when try_from_usize gives None)
     keyed = false  Strings  (the index in the model's ItSome is ghost: Strings yields only the string, so the model's
                              items are compared after [noidx] erases it)
   [abs] reads the yielded `&'a str` (an sref of the slice `strings`) in the arena, as the model's key_str does; a result
   of any other shape (stuck, a reference where a value is due, ..) has NO abstraction, so it can never equal a model item.
   One generic tactic [iters_tac]; every theorem is followed by Print Assumptions. *)
From Coq Require Import List NArith Bool String Lia ZifyBool ZifyN.
From Lasso Require Import Base Arena Rodeo.
From LassoGen Require Import GenIRIters ItersGen.
Import ListNotations.
Open Scope N_scope.
Arguments N.add : simpl never.
Arguments N.sub : simpl never.
Arguments N.mul : simpl never.
Arguments N.ltb : simpl never.
Arguments N.leb : simpl never.
Arguments N.eqb : simpl never.

Definition op_name (o : iop) : string :=
  match o with INext => "next" | INextBack => "next_back" | INthBack _ => "nth_back" | ILen => "len" end%string.
Definition op_arg (o : iop) : N := match o with INthBack n => n | _ => 0 end.

Definition abs (a : arena) (r : result sref) : option item :=
  match r with
  | ROpt None => Some ItNone
  | ROpt (Some (YPair (YKey k) (YVal x))) => Some (match read a x with Some s => ItSome k s | None => ItPanic end)
  | ROpt (Some (YVal x)) => Some (match read a x with Some s => ItSome 0 s | None => ItPanic end)
  | RLen n => Some (ItLen n)
  | RPanic => Some ItPanic
  | _ => None
  end.
Definition noidx (i : item) : item := match i with ItSome _ s => ItSome 0 s | x => x end.

(* the expected tables of constructors and callers *)
Definition expected_ctors (s : source) : list (string * (string * (string * source))) :=
  [("from_rodeo", ("Rodeo", ("strings", s))); ("from_reader", ("RodeoReader", ("strings", s)));
   ("from_resolver", ("RodeoResolver", ("strings", s)))]%string.
Definition expected_callers : list (string * (string * fwd)) :=
  [("Rodeo", ("iter", FwdCtor "Iter" "from_rodeo")); ("Rodeo", ("strings", FwdCtor "Strings" "from_rodeo"));
   ("Rodeo", ("into_iter", FwdSelf "iter"));
   ("RodeoReader", ("iter", FwdCtor "Iter" "from_reader")); ("RodeoReader", ("strings", FwdCtor "Strings" "from_reader"));
   ("RodeoReader", ("into_iter", FwdSelf "iter"));
   ("RodeoResolver", ("iter", FwdCtor "Iter" "from_resolver")); ("RodeoResolver", ("strings", FwdCtor "Strings" "from_resolver"));
   ("RodeoResolver", ("into_iter", FwdSelf "iter"))]%string.

Ltac iters_norm :=
  repeat match goal with
         | |- context [?c + (?h - ?c)] => replace (c + (h - c)) with h by lia
         | |- context [?x =? ?x] => rewrite (N.eqb_refl x)
         end.

Ltac iters_case :=
  match goal with
  | |- context [if ?b then _ else _] =>
      match b with
      | N.ltb _ _ => let E := fresh "E" in destruct b eqn:E
      end
  | |- context [match nth_error ?l ?i with _ => _ end] =>
      let E := fresh "En" in destruct (nth_error l i) eqn:E;
      [| exfalso; apply nth_error_None in E; lia]
  end.
Ltac iters_read :=
  match goal with |- context [match read ?a ?r with _ => _ end] => destruct (read a r) end.

Section Proofs.
  Variable keycap : N.
  Notation try_key := (Rodeo.try_key keycap).

  Definition run_op (elem : eterm) (tbl : list method) (strs : list sref) (st : state) (o : iop) : state * result sref :=
    run_named strs try_key elem tbl st (op_name o) (op_arg o).

  Fixpoint run_plan (a : arena) (elem : eterm) (tbl : list method) (strs : list sref) (st : state) (plan : list iop)
    : list (option item) :=
    match plan with
    | [] => []
    | o :: p => let r := run_op elem tbl strs st o in abs a (snd r) :: run_plan a elem tbl strs (fst r) p
    end.

  Ltac iters_tac :=
    intros;
    match goal with o : iop |- _ => destruct o end;
    unfold run_op, run_named;
    cbn [op_name op_arg find_method String.eqb Ascii.eqb Bool.eqb gen_iter_methods gen_strings_methods gen_iter_source
         gen_strings_source gen_iter_element state_at run_method run_basic raw_next raw_next_back raw_nth_back eval_arg
         hint_of len_of fst snd];
    unfold Rodeo.try_key;
    cbn [Rodeo.run_iter map]; unfold Rodeo.iter_item, Rodeo.key_str; cbn [andb negb];
    iters_norm;
    repeat (iters_case;
            cbn [fin apply_post eval gen_iter_element fst snd abs state_at hint_of len_of andb negb]; unfold Rodeo.try_key; iters_norm);
    do 3 eexists;
    (split; [cbn [state_at]; reflexivity |]);
    (split; [cbn [abs]; reflexivity |]);
    (split; [lia |]); (split; [lia |]);
    intros; cbn [noidx map]; repeat iters_read; reflexivity.

  (* ---------------- one step ---------------- *)
  Theorem gen_iter_step_eq : forall (strs : list sref) (a : arena) (lo hi : N) (o : iop),
    lo <= hi -> hi <= N.of_nat (List.length strs) ->
    exists lo' hi' it,
      fst (run_op gen_iter_element gen_iter_methods strs (state_at gen_iter_source lo hi) o) = state_at gen_iter_source lo' hi'
      /\ abs a (snd (run_op gen_iter_element gen_iter_methods strs (state_at gen_iter_source lo hi) o)) = Some it
      /\ lo' <= hi' /\ hi' <= N.of_nat (List.length strs)
      /\ forall p, run_iter keycap true strs a lo hi (o :: p) = it :: run_iter keycap true strs a lo' hi' p.
  Proof. iters_tac. Qed.

  Theorem gen_strings_step_eq : forall (strs : list sref) (a : arena) (lo hi : N) (o : iop),
    lo <= hi -> hi <= N.of_nat (List.length strs) ->
    exists lo' hi' it,
      fst (run_op gen_iter_element gen_strings_methods strs (state_at gen_strings_source lo hi) o) = state_at gen_strings_source lo' hi'
      /\ abs a (snd (run_op gen_iter_element gen_strings_methods strs (state_at gen_strings_source lo hi) o)) = Some it
      /\ lo' <= hi' /\ hi' <= N.of_nat (List.length strs)
      /\ forall p, map noidx (run_iter keycap false strs a lo hi (o :: p)) = it :: map noidx (run_iter keycap false strs a lo' hi' p).
  Proof. iters_tac. Qed.

  (* ---------------- whole plans ---------------- *)
  Theorem gen_iter_plan_eq : forall (plan : list iop) (strs : list sref) (a : arena) (lo hi : N),
    lo <= hi -> hi <= N.of_nat (List.length strs) ->
    run_plan a gen_iter_element gen_iter_methods strs (state_at gen_iter_source lo hi) plan
    = map Some (run_iter keycap true strs a lo hi plan).
  Proof.
    induction plan as [|o p IH]; intros strs a lo hi H1 H2; [reflexivity|].
    destruct (gen_iter_step_eq strs a lo hi o H1 H2) as (lo' & hi' & it & Hs & Ha & Hb1 & Hb2 & Hm).
    cbn [run_plan]. rewrite Hs, Ha, Hm. cbn [map]. f_equal. apply IH; assumption.
  Qed.

  Theorem gen_strings_plan_eq : forall (plan : list iop) (strs : list sref) (a : arena) (lo hi : N),
    lo <= hi -> hi <= N.of_nat (List.length strs) ->
    run_plan a gen_iter_element gen_strings_methods strs (state_at gen_strings_source lo hi) plan
    = map Some (map noidx (run_iter keycap false strs a lo hi plan)).
  Proof.
    induction plan as [|o p IH]; intros strs a lo hi H1 H2; [reflexivity|].
    destruct (gen_strings_step_eq strs a lo hi o H1 H2) as (lo' & hi' & it & Hs & Ha & Hb1 & Hb2 & Hm).
    cbn [run_plan]. rewrite Hs, Ha, Hm. cbn [map]. f_equal. apply IH; assumption.
  Qed.

  (* ---------------- ExactSizeIterator: size_hint is exact and `len` is the window's length ---------------- *)
  Theorem gen_iter_exact_size : forall (strs : list sref) (lo hi : N),
    snd (run_named strs try_key gen_iter_element gen_iter_methods (state_at gen_iter_source lo hi) "size_hint" 0)
      = RHint (hi - lo) (Some (hi - lo))
    /\ snd (run_named strs try_key gen_iter_element gen_strings_methods (state_at gen_strings_source lo hi) "size_hint" 0)
      = RHint (hi - lo) (Some (hi - lo))
    /\ snd (run_named strs try_key gen_iter_element gen_iter_methods (state_at gen_iter_source lo hi) "len" 0) = RLen (hi - lo)
    /\ snd (run_named strs try_key gen_iter_element gen_strings_methods (state_at gen_strings_source lo hi) "len" 0) = RLen (hi - lo).
  Proof.
    intros; unfold run_named; cbn; rewrite ?N.eqb_refl; repeat split; reflexivity.
  Qed.
End Proofs.

(* ---------------- constructors and callers ---------------- *)
Theorem gen_ctors_eq :
  gen_iter_ctors = expected_ctors gen_iter_source /\ gen_strings_ctors = expected_ctors gen_strings_source
  /\ (forall len, init_state gen_iter_source len = StEnum (StSlice 0 len) 0
                  /\ init_state gen_iter_source len = state_at gen_iter_source 0 len)
  /\ (forall len, init_state gen_strings_source len = StSlice 0 len
                  /\ init_state gen_strings_source len = state_at gen_strings_source 0 len).
Proof. repeat split; reflexivity. Qed.

Theorem gen_callers_eq : gen_callers = expected_callers.
Proof. reflexivity. Qed.

Print Assumptions gen_iter_step_eq.
Print Assumptions gen_strings_step_eq.
Print Assumptions gen_iter_plan_eq.
Print Assumptions gen_strings_plan_eq.
Print Assumptions gen_iter_exact_size.
Print Assumptions gen_ctors_eq.
Print Assumptions gen_callers_eq.
