(* ItersGenProofs.v -- HAND-WRITTEN ONCE (not generated).  The iterator code of src/util.rs, regenerated as terms of the
   IR of GenIRIters.v (ItersGen.v) and run with the STD semantics of slice::Iter / Enumerate / Option::map / Option::copied,
   is the model's [Rodeo.run_iter]:  for ALL strs, a, windows lo <= hi <= |strs| and every op.
     keyed = true   Iter     (items carry the key index; iter_element panics when try_from_usize gives None)
     keyed = false  Strings  (the index in the model's ItSome is ghost: Strings yields only the string, so the model's
                              items are compared after [noidx] erases it)
   [abs] reads the yielded `&'a str` (an sref of the slice `strings`) in the arena, as the model's key_str does; a result
   of any other shape (stuck, a reference where a value is due, ..) has NO abstraction, so it can never equal a model item.
   One generic tactic [iters_tac]; every theorem is followed by Print Assumptions. *)
From Coq Require Import List NArith Bool String Lia ZifyBool ZifyN.
From Lasso Require Import Base Arena Rodeo.
From LassoGen Require Import GenIRIters ItersGen.
Import ListNotations.
Open Scope N_scope.
Arguments N.add : simpl never.
Arguments N.sub : simpl never.
Arguments N.mul : simpl never.
Arguments N.ltb : simpl never.
Arguments N.leb : simpl never.
Arguments N.eqb : simpl never.

Definition op_name (o : iop) : string :=
  match o with INext => "next" | INextBack => "next_back" | INthBack _ => "nth_back" | ILen => "len" end%string.
Definition op_arg (o : iop) : N := match o with INthBack n => n | _ => 0 end.

Definition abs (a : arena) (r : result sref) : option item :=
  match r with
  | ROpt None => Some ItNone
  | ROpt (Some (YPair (YKey k) (YVal x))) => Some (match read a x with Some s => ItSome k s | None => ItPanic end)
  | ROpt (Some (YVal x)) => Some (match read a x with Some s => ItSome 0 s | None => ItPanic end)
  | RLen n => Some (ItLen n)
  | RPanic => Some ItPanic
  | _ => None
  end.
Definition noidx (i : item) : item := match i with ItSome _ s => ItSome 0 s | x => x end.

(* the expected tables of constructors and callers *)
Definition expected_ctors (s : source) : list (string * (string * (string * source))) :=
  [("from_rodeo", ("Rodeo", ("strings", s))); ("from_reader", ("RodeoReader", ("strings", s)));
   ("from_resolver", ("RodeoResolver", ("strings", s)))]%string.
Definition expected_callers : list (string * (string * fwd)) :=
  [("Rodeo", ("iter", FwdCtor "Iter" "from_rodeo")); ("Rodeo", ("strings", FwdCtor "Strings" "from_rodeo"));
   ("Rodeo", ("into_iter", FwdSelf "iter"));
   ("RodeoReader", ("iter", FwdCtor "Iter" "from_reader")); ("RodeoReader", ("strings", FwdCtor "Strings" "from_reader"));
   ("RodeoReader", ("into_iter", FwdSelf "iter"));
   ("RodeoResolver", ("iter", FwdCtor "Iter" "from_resolver")); ("RodeoResolver", ("strings", FwdCtor "Strings" "from_resolver"));
   ("RodeoResolver", ("into_iter", FwdSelf "iter"))]%string.

Ltac iters_norm :=
  repeat match goal with
         | |- context [?c + (?h - ?c)] => replace (c + (h - c)) with h by lia
         | |- context [?x =? ?x] => rewrite (N.eqb_refl x)
         end.

Ltac iters_case :=
  match goal with
  | |- context [if ?b then _ else _] =>
      match b with
      | N.ltb _ _ => let E := fresh "E" in destruct b eqn:E
      end
  | |- context [match nth_error ?l ?i with _ => _ end] =>
      let E := fresh "En" in destruct (nth_error l i) eqn:E;
      [| exfalso; apply nth_error_None in E; lia]
  end.
Ltac iters_read :=
  match goal with |- context [match read ?a ?r with _ => _ end] => destruct (read a r) end.

(* ---------------- closed forms of the std defaults nth / count / last, for ANY `next` that walks a window ---------------- *)
Section DefaultsClosed.
  Variable strs : list sref.
  Variable nxt : state -> state * result sref.
  Variable S : N -> N -> state.
  Variable mk : N -> sref -> yv sref.
  Variable bound : N.
  Hypothesis Hb : bound <= N.of_nat (List.length strs).
  Hypothesis Hn : forall lo hi, lo <= hi -> hi <= bound ->
    nxt (S lo hi) = if lo <? hi then (S (lo + 1) hi, ROpt (option_map (mk lo) (nth_error strs (N.to_nat lo))))
                    else (S lo hi, ROpt None).

  Lemma nth_error_some : forall i, i < bound -> exists r, nth_error strs (N.to_nat i) = Some r.
  Proof. intros i Hi. destruct (nth_error strs (N.to_nat i)) eqn:E; [eauto|]. apply nth_error_None in E. lia. Qed.

  Lemma default_nth_closed : forall k lo hi, lo <= hi -> hi <= bound ->
    default_nth nxt k (S lo hi) =
      if lo + N.of_nat k <? hi
      then (S (lo + N.of_nat k + 1) hi,
            ROpt (option_map (mk (lo + N.of_nat k)) (nth_error strs (N.to_nat (lo + N.of_nat k)))))
      else (S hi hi, ROpt None).
  Proof.
    induction k as [|k IH]; intros lo hi H1 H2; cbn [default_nth]; rewrite Hn by assumption.
    - replace (lo + N.of_nat 0) with lo by lia. destruct (lo <? hi) eqn:E; [reflexivity|].
      assert (lo = hi) by lia; subst; reflexivity.
    - destruct (lo <? hi) eqn:E.
      + destruct (nth_error_some lo ltac:(lia)) as [r Hr]. rewrite Hr. cbn [option_map].
        rewrite IH by lia. replace (lo + 1 + N.of_nat k) with (lo + N.of_nat (Datatypes.S k)) by lia. reflexivity.
      + assert (lo = hi) by lia; subst.
        destruct (hi + N.of_nat (Datatypes.S k) <? hi) eqn:E2; [lia | reflexivity].
  Qed.

  Lemma default_count_closed : forall fuel lo hi acc, lo <= hi -> hi <= bound -> (N.to_nat (hi - lo) < fuel)%nat ->
    default_count nxt fuel (S lo hi) acc = RLen (acc + (hi - lo)).
  Proof.
    induction fuel as [|f IH]; intros lo hi acc H1 H2 H3; [lia|].
    cbn [default_count]. rewrite Hn by assumption. destruct (lo <? hi) eqn:E.
    - destruct (nth_error_some lo ltac:(lia)) as [r Hr]. rewrite Hr. cbn [option_map].
      rewrite IH by lia. f_equal. lia.
    - f_equal. lia.
  Qed.

  Lemma default_last_closed : forall fuel lo hi acc, lo <= hi -> hi <= bound -> (N.to_nat (hi - lo) < fuel)%nat ->
    default_last nxt fuel (S lo hi) acc =
      ROpt (if lo <? hi then option_map (mk (hi - 1)) (nth_error strs (N.to_nat (hi - 1))) else acc).
  Proof.
    induction fuel as [|f IH]; intros lo hi acc H1 H2 H3; [lia|].
    cbn [default_last]. rewrite Hn by assumption. destruct (lo <? hi) eqn:E; [|reflexivity].
    destruct (nth_error_some lo ltac:(lia)) as [r Hr]. rewrite Hr. cbn [option_map].
    rewrite IH by lia. destruct (lo + 1 <? hi) eqn:E2; [reflexivity|].
    replace (hi - 1) with lo by lia. rewrite Hr. reflexivity.
  Qed.
End DefaultsClosed.

Definition mk_iter (i : N) (r : sref) : yv sref := YPair (YKey i) (YVal r).
Definition mk_str (i : N) (r : sref) : yv sref := YVal r.

Section Proofs.
  Variable keycap : N.
  Notation try_key := (Rodeo.try_key keycap).

  Definition run_op (elem : eterm) (tbl : list method) (strs : list sref) (st : state) (o : iop) : state * result sref :=
    run_named strs try_key elem tbl st (op_name o) (op_arg o).

  Fixpoint run_plan (a : arena) (elem : eterm) (tbl : list method) (strs : list sref) (st : state) (plan : list iop)
    : list (option item) :=
    match plan with
    | [] => []
    | o :: p => let r := run_op elem tbl strs st o in abs a (snd r) :: run_plan a elem tbl strs (fst r) p
    end.

  Ltac iters_tac :=
    intros;
    match goal with o : iop |- _ => destruct o end;
    unfold run_op, run_named;
    cbn [op_name op_arg find_method String.eqb Ascii.eqb Bool.eqb gen_iter_methods gen_strings_methods gen_iter_source
         gen_strings_source gen_iter_element state_at run_method run_basic raw_next raw_next_back raw_nth_back eval_arg
         hint_of len_of fst snd];
    unfold Rodeo.try_key;
    cbn [Rodeo.run_iter map]; unfold Rodeo.iter_item, Rodeo.key_str; cbn [andb negb];
    iters_norm;
    repeat (iters_case;
            cbn [fin apply_post eval gen_iter_element fst snd abs state_at hint_of len_of andb negb]; unfold Rodeo.try_key; iters_norm);
    do 3 eexists;
    (split; [cbn [state_at]; reflexivity |]);
    (split; [cbn [abs]; reflexivity |]);
    (split; [lia |]); (split; [lia |]);
    intros; cbn [noidx map]; repeat iters_read; reflexivity.

  (* ---------------- one step ---------------- *)
  Theorem gen_iter_step_eq : forall (strs : list sref) (a : arena) (lo hi : N) (o : iop),
    lo <= hi -> hi <= N.of_nat (List.length strs) ->
    exists lo' hi' it,
      fst (run_op gen_iter_element gen_iter_methods strs (state_at gen_iter_source lo hi) o) = state_at gen_iter_source lo' hi'
      /\ abs a (snd (run_op gen_iter_element gen_iter_methods strs (state_at gen_iter_source lo hi) o)) = Some it
      /\ lo' <= hi' /\ hi' <= N.of_nat (List.length strs)
      /\ forall p, run_iter keycap true strs a lo hi (o :: p) = it :: run_iter keycap true strs a lo' hi' p.
  Proof. iters_tac. Qed.

  Theorem gen_strings_step_eq : forall (strs : list sref) (a : arena) (lo hi : N) (o : iop),
    lo <= hi -> hi <= N.of_nat (List.length strs) ->
    exists lo' hi' it,
      fst (run_op gen_iter_element gen_strings_methods strs (state_at gen_strings_source lo hi) o) = state_at gen_strings_source lo' hi'
      /\ abs a (snd (run_op gen_iter_element gen_strings_methods strs (state_at gen_strings_source lo hi) o)) = Some it
      /\ lo' <= hi' /\ hi' <= N.of_nat (List.length strs)
      /\ forall p, map noidx (run_iter keycap false strs a lo hi (o :: p)) = it :: map noidx (run_iter keycap false strs a lo' hi' p).
  Proof. iters_tac. Qed.

  (* ---------------- whole plans ---------------- *)
  Theorem gen_iter_plan_eq : forall (plan : list iop) (strs : list sref) (a : arena) (lo hi : N),
    lo <= hi -> hi <= N.of_nat (List.length strs) ->
    run_plan a gen_iter_element gen_iter_methods strs (state_at gen_iter_source lo hi) plan
    = map Some (run_iter keycap true strs a lo hi plan).
  Proof.
    induction plan as [|o p IH]; intros strs a lo hi H1 H2; [reflexivity|].
    destruct (gen_iter_step_eq strs a lo hi o H1 H2) as (lo' & hi' & it & Hs & Ha & Hb1 & Hb2 & Hm).
    cbn [run_plan]. rewrite Hs, Ha, Hm. cbn [map]. f_equal. apply IH; assumption.
  Qed.

  Theorem gen_strings_plan_eq : forall (plan : list iop) (strs : list sref) (a : arena) (lo hi : N),
    lo <= hi -> hi <= N.of_nat (List.length strs) ->
    run_plan a gen_iter_element gen_strings_methods strs (state_at gen_strings_source lo hi) plan
    = map Some (map noidx (run_iter keycap false strs a lo hi plan)).
  Proof.
    induction plan as [|o p IH]; intros strs a lo hi H1 H2; [reflexivity|].
    destruct (gen_strings_step_eq strs a lo hi o H1 H2) as (lo' & hi' & it & Hs & Ha & Hb1 & Hb2 & Hm).
    cbn [run_plan]. rewrite Hs, Ha, Hm. cbn [map]. f_equal. apply IH; assumption.
  Qed.

  (* ---------------- ExactSizeIterator: size_hint is exact and `len` is the window's length ---------------- *)
  Theorem gen_iter_exact_size : forall (strs : list sref) (lo hi : N),
    snd (run_named strs try_key gen_iter_element gen_iter_methods (state_at gen_iter_source lo hi) "size_hint" 0)
      = RHint (hi - lo) (Some (hi - lo))
    /\ snd (run_named strs try_key gen_iter_element gen_strings_methods (state_at gen_strings_source lo hi) "size_hint" 0)
      = RHint (hi - lo) (Some (hi - lo))
    /\ snd (run_named strs try_key gen_iter_element gen_iter_methods (state_at gen_iter_source lo hi) "len" 0) = RLen (hi - lo)
    /\ snd (run_named strs try_key gen_iter_element gen_strings_methods (state_at gen_strings_source lo hi) "len" 0) = RLen (hi - lo).
  Proof.
    intros; unfold run_named; cbn; rewrite ?N.eqb_refl; repeat split; reflexivity.
  Qed.
  (* ---------------- overrides of Iterator::nth / count / last agree with the std defaults built from the type's own next ----
     Stated so that the SAME statements hold whether or not the generated table overrides the method (None => True: the default
     IS what runs).  For Iter the hypothesis hi <= keycap (every position of the window is a valid key) is needed: the default
     nth builds -- and would panic on -- the keys of the skipped entries, the override does not. *)
  Definition nxt_of (elem : eterm) (tbl : list method) (strs : list sref) : state -> state * result sref :=
    fun st => run_named strs try_key elem tbl st "next" 0.

  Definition nth_override_ok (elem : eterm) (tbl : list method) (src : source) (strs : list sref) (lo hi n : N) : Prop :=
    match find_method "nth" tbl with
    | None => True
    | Some m => st_agree (fst (run_method strs try_key elem tbl (state_at src lo hi) m n))
                         (fst (default_nth (nxt_of elem tbl strs) (N.to_nat n) (state_at src lo hi)))
                /\ snd (run_method strs try_key elem tbl (state_at src lo hi) m n)
                   = snd (default_nth (nxt_of elem tbl strs) (N.to_nat n) (state_at src lo hi))
    end.
  (* count(self) / last(self) consume the iterator: only the result is compared *)
  Definition count_override_ok (elem : eterm) (tbl : list method) (src : source) (strs : list sref) (lo hi : N) : Prop :=
    match find_method "count" tbl with
    | None => True
    | Some m => snd (run_method strs try_key elem tbl (state_at src lo hi) m 0)
                = default_count (nxt_of elem tbl strs) (Datatypes.S (N.to_nat (len_of (state_at src lo hi)))) (state_at src lo hi) 0
    end.
  Definition last_override_ok (elem : eterm) (tbl : list method) (src : source) (strs : list sref) (lo hi : N) : Prop :=
    match find_method "last" tbl with
    | None => True
    | Some m => snd (run_method strs try_key elem tbl (state_at src lo hi) m 0)
                = default_last (nxt_of elem tbl strs) (Datatypes.S (N.to_nat (len_of (state_at src lo hi)))) (state_at src lo hi) None
    end.

  Ltac ov_cbn :=
    cbn [find_method String.eqb Ascii.eqb Bool.eqb gen_iter_methods gen_strings_methods gen_iter_source gen_strings_source
         gen_iter_element state_at run_method run_basic raw_next raw_next_back raw_nth raw_nth_back eval_arg hint_of len_of
         window_of fst snd].
  Ltac ov_step :=
    first
      [ match goal with
        | |- context [if ?b then _ else _] =>
            match b with N.ltb _ _ => first [ replace b with true by lia | replace b with false by lia
                                            | let E := fresh "E" in destruct b eqn:E ] end
        end
      | match goal with
        | |- context [match nth_error ?l ?i with _ => _ end] =>
            let E := fresh "En" in destruct (nth_error l i) eqn:E; [| exfalso; apply nth_error_None in E; lia]
        end ];
    cbn [fin apply_post eval gen_iter_element option_map mk_iter mk_str fst snd state_at window_of len_of]; unfold Rodeo.try_key;
    iters_norm.
  Ltac ov_done :=
    repeat split; cbn [window_of state_at fst snd];
    first [ reflexivity | f_equal; lia | intros; exfalso; lia ].

  Theorem gen_iter_next_spec : forall (strs : list sref) (lo hi : N),
    lo <= hi -> hi <= N.min keycap (N.of_nat (List.length strs)) ->
    nxt_of gen_iter_element gen_iter_methods strs (state_at gen_iter_source lo hi)
    = if lo <? hi then (state_at gen_iter_source (lo + 1) hi, ROpt (option_map (mk_iter lo) (nth_error strs (N.to_nat lo))))
      else (state_at gen_iter_source lo hi, ROpt None).
  Proof.
    intros strs lo hi H1 H2. unfold nxt_of, run_named. ov_cbn. unfold Rodeo.try_key.
    destruct (lo <? hi) eqn:E; [|reflexivity]. repeat ov_step. reflexivity.
  Qed.

  Theorem gen_strings_next_spec : forall (strs : list sref) (lo hi : N),
    lo <= hi -> hi <= N.of_nat (List.length strs) ->
    nxt_of gen_iter_element gen_strings_methods strs (state_at gen_strings_source lo hi)
    = if lo <? hi then (state_at gen_strings_source (lo + 1) hi, ROpt (option_map (mk_str lo) (nth_error strs (N.to_nat lo))))
      else (state_at gen_strings_source lo hi, ROpt None).
  Proof.
    intros strs lo hi H1 H2. unfold nxt_of, run_named. ov_cbn. unfold Rodeo.try_key.
    destruct (lo <? hi) eqn:E; [|reflexivity]. repeat ov_step. reflexivity.
  Qed.

  Theorem gen_iter_nth_override_ok : forall (strs : list sref) (lo hi n : N),
    lo <= hi -> hi <= N.of_nat (List.length strs) -> hi <= keycap ->
    nth_override_ok gen_iter_element gen_iter_methods gen_iter_source strs lo hi n.
  Proof.
    intros strs lo hi n H1 H2 H3. unfold nth_override_ok.
    cbn [find_method String.eqb Ascii.eqb Bool.eqb gen_iter_methods]; try exact I;
    rewrite (default_nth_closed strs _ (state_at gen_iter_source) mk_iter (N.min keycap (N.of_nat (List.length strs)))
               ltac:(lia) (gen_iter_next_spec strs)) by lia;
    rewrite N2Nat.id; ov_cbn; unfold Rodeo.try_key; repeat ov_step; ov_done.
  Qed.

  Theorem gen_iter_count_override_ok : forall (strs : list sref) (lo hi : N),
    lo <= hi -> hi <= N.of_nat (List.length strs) -> hi <= keycap ->
    count_override_ok gen_iter_element gen_iter_methods gen_iter_source strs lo hi.
  Proof.
    intros strs lo hi H1 H2 H3. unfold count_override_ok.
    cbn [find_method String.eqb Ascii.eqb Bool.eqb gen_iter_methods]; try exact I;
    rewrite (default_count_closed strs _ (state_at gen_iter_source) mk_iter (N.min keycap (N.of_nat (List.length strs)))
               ltac:(lia) (gen_iter_next_spec strs)) by (cbn [gen_iter_source state_at len_of]; lia);
    ov_cbn; ov_done.
  Qed.

  Theorem gen_iter_last_override_ok : forall (strs : list sref) (lo hi : N),
    lo <= hi -> hi <= N.of_nat (List.length strs) -> hi <= keycap ->
    last_override_ok gen_iter_element gen_iter_methods gen_iter_source strs lo hi.
  Proof.
    intros strs lo hi H1 H2 H3. unfold last_override_ok.
    cbn [find_method String.eqb Ascii.eqb Bool.eqb gen_iter_methods]; try exact I;
    rewrite (default_last_closed strs _ (state_at gen_iter_source) mk_iter (N.min keycap (N.of_nat (List.length strs)))
               ltac:(lia) (gen_iter_next_spec strs)) by (cbn [gen_iter_source state_at len_of]; lia);
    ov_cbn; unfold Rodeo.try_key; iters_norm; repeat ov_step; ov_done.
  Qed.

  Theorem gen_strings_nth_override_ok : forall (strs : list sref) (lo hi n : N),
    lo <= hi -> hi <= N.of_nat (List.length strs) ->
    nth_override_ok gen_iter_element gen_strings_methods gen_strings_source strs lo hi n.
  Proof.
    intros strs lo hi n H1 H2. unfold nth_override_ok.
    cbn [find_method String.eqb Ascii.eqb Bool.eqb gen_strings_methods]; try exact I;
    rewrite (default_nth_closed strs _ (state_at gen_strings_source) mk_str (N.of_nat (List.length strs))
               ltac:(lia) (gen_strings_next_spec strs)) by lia;
    rewrite N2Nat.id; ov_cbn; unfold Rodeo.try_key; repeat ov_step; ov_done.
  Qed.

  Theorem gen_strings_count_override_ok : forall (strs : list sref) (lo hi : N),
    lo <= hi -> hi <= N.of_nat (List.length strs) ->
    count_override_ok gen_iter_element gen_strings_methods gen_strings_source strs lo hi.
  Proof.
    intros strs lo hi H1 H2. unfold count_override_ok.
    cbn [find_method String.eqb Ascii.eqb Bool.eqb gen_strings_methods]; try exact I;
    rewrite (default_count_closed strs _ (state_at gen_strings_source) mk_str (N.of_nat (List.length strs))
               ltac:(lia) (gen_strings_next_spec strs)) by (cbn [gen_strings_source state_at len_of]; lia);
    ov_cbn; ov_done.
  Qed.

  Theorem gen_strings_last_override_ok : forall (strs : list sref) (lo hi : N),
    lo <= hi -> hi <= N.of_nat (List.length strs) ->
    last_override_ok gen_iter_element gen_strings_methods gen_strings_source strs lo hi.
  Proof.
    intros strs lo hi H1 H2. unfold last_override_ok.
    cbn [find_method String.eqb Ascii.eqb Bool.eqb gen_strings_methods]; try exact I;
    rewrite (default_last_closed strs _ (state_at gen_strings_source) mk_str (N.of_nat (List.length strs))
               ltac:(lia) (gen_strings_next_spec strs)) by (cbn [gen_strings_source state_at len_of]; lia);
    ov_cbn; unfold Rodeo.try_key; iters_norm; repeat ov_step; ov_done.
  Qed.
End Proofs.

(* ---------------- constructors and callers ---------------- *)
Theorem gen_ctors_eq :
  gen_iter_ctors = expected_ctors gen_iter_source /\ gen_strings_ctors = expected_ctors gen_strings_source
  /\ (forall len, init_state gen_iter_source len = StEnum (StSlice 0 len) 0
                  /\ init_state gen_iter_source len = state_at gen_iter_source 0 len)
  /\ (forall len, init_state gen_strings_source len = StSlice 0 len
                  /\ init_state gen_strings_source len = state_at gen_strings_source 0 len).
Proof. repeat split; reflexivity. Qed.

Theorem gen_callers_eq : gen_callers = expected_callers.
Proof. reflexivity. Qed.

Print Assumptions gen_iter_step_eq.
Print Assumptions gen_strings_step_eq.
Print Assumptions gen_iter_plan_eq.
Print Assumptions gen_strings_plan_eq.
Print Assumptions gen_iter_exact_size.
Print Assumptions gen_ctors_eq.
Print Assumptions gen_callers_eq.
Print Assumptions gen_iter_next_spec.
Print Assumptions gen_strings_next_spec.
Print Assumptions gen_iter_nth_override_ok.
Print Assumptions gen_iter_count_override_ok.
Print Assumptions gen_iter_last_override_ok.
Print Assumptions gen_strings_nth_override_ok.
Print Assumptions gen_strings_count_override_ok.
Print Assumptions gen_strings_last_override_ok.
