#!/usr/bin/env python3
"""lower_atomic_bucket.py -- ONE-THREAD view of three functions of src/arenas/atomic_bucket.rs -> AtomicBucketGen.v
(terms of GenIRAb.v):  BucketRef::try_inc_length, UniqueBucketRef::set_len, UniqueBucketRef::push_slice.

The raw-pointer accessors are checked to have exactly the expected shape and then read as fields of the bucket:
   BucketRef::length        unsafe { &( *self.as_ptr()).len }                         -> `len` (an AtomicUsize)
   BucketRef::capacity      unsafe { ( *self.as_ptr()).capacity }                     -> `capacity`
   UniqueBucketRef::capacity   self.bucket.capacity()
   UniqueBucketRef::len     unsafe { *( *addr_of_mut!(( *self.as_ptr()).len)).get_mut() }  -> the value of `len`
Recognised forms beyond lower_arena.py's numbers / booleans:
   numbers      L.load(Ordering::_) (L bound by `let L = self.length();`) | self.len() | self.capacity().get()
   statements   let [mut] x = <number>;   x = <number>; (x a `let mut`)   debug_assert!(c [, "msg", ..]);  debug_assert_ne!/eq!
                verif_point!(..); hint::spin_loop();  (nothing)           if c { .. } [else { .. }]     return <result>;   break;
                for _ in 0..N { .. }                                      if cfg!(debug_assertions) { lets and debug_asserts }
                match L.compare_exchange_weak(old, new, Ordering::_, Ordering::_) { Ok(_) => { .. } Err(x) => { .. } }
                let p = unsafe { addr_of_mut!(( *self.as_ptr())._data).cast::<u8>().add(e) };
                let t = unsafe { slice::from_raw_parts_mut(p, e) };       t.copy_from_slice(STR);
                unsafe { self.set_len(e) };            unsafe { *( *addr_of_mut!(( *self.as_ptr()).len)).get_mut() = e };
   results      Ok(e) | Err(())   (try_inc_length)        unsafe { core::str::from_utf8_unchecked(t) }   (push_slice)
"""
import os
import rsparse
from rsparse import Lost
from lower_arena import Fn, Known, strip, names_of, is_path, q
from lower_lockfree import LScope, is_ordering, impl_fns, check_sig

AB_FIELDS = {"next": "AtomicPtr<Self>", "len": "AtomicUsize", "capacity": "NonZeroUsize", "_data": "[u8;0]"}


def deref_self_field(e, fld):
    e = strip(e)
    if e[0] != "field" or e[3] != fld: return False
    r = e[2]
    if r[0] != "paren": return False
    r = r[2]
    if not (r[0] == "un" and r[2] == "*" and strip(r[3])[0] == "mcall" and strip(r[3])[3] == "as_ptr" and not strip(r[3])[4]): return False
    recv = strip(strip(r[3])[2])
    # the bucket's pointer: self.as_ptr(), or (in UniqueBucketRef { bucket: BucketRef }) self.bucket.as_ptr()
    return is_path(recv, "self") or (recv[0] == "field" and recv[3] == "bucket" and is_path(strip(recv[2]), "self"))


def len_exclusive(e):
    """*( *addr_of_mut!(( *self.as_ptr()).len)).get_mut()"""
    e = strip(e)
    if not (e[0] == "un" and e[2] == "*"): return False
    m = strip(e[3])
    if not (m[0] == "mcall" and m[3] == "get_mut" and not m[4] and m[2][0] == "paren"): return False
    d = m[2][2]
    if not (d[0] == "un" and d[2] == "*" and d[3][0] == "macro" and d[3][2] == "addr_of_mut" and len(d[3][3]) == 1): return False
    return deref_self_field(d[3][3][0], "len")


def data_ptr_add(e):
    """addr_of_mut!(( *self.as_ptr())._data).cast::<u8>().add(E)  -> E or None"""
    e = strip(e)
    if not (e[0] == "mcall" and e[3] == "add" and len(e[4]) == 1): return None
    c = strip(e[2])
    if not (c[0] == "mcall" and c[3] == "cast" and not c[4]): return None
    m = strip(c[2])
    if not (m[0] == "macro" and m[2] == "addr_of_mut" and len(m[3]) == 1 and deref_self_field(m[3][0], "_data")): return None
    return e[4][0]


class AbFn(Fn):
    def __init__(self, rkind, known, ok):
        Fn.__init__(self, "abucket", rkind, known)
        self.sc = LScope()
        self.ok = ok            # which accessors have the expected shape

    def num(self, e):
        e0 = strip(e)
        if e0[0] == "mcall":
            recv, name, args = strip(e0[2]), e0[3], e0[4]
            if name == "load" and len(args) == 1 and is_ordering(args[0]) and recv[0] == "path" and len(names_of(recv)) == 1 \
                    and self.sc.get(names_of(recv)[0]) == "atomlen":
                return "EField FIndex"
            if name == "len" and not args and is_path(recv, "self"):
                if "len" not in self.ok: self.lost(e0, "self.len() is not the expected exclusive read of `len`")
                return "EField FIndex"
            if name == "get" and not args and recv[0] == "mcall" and recv[3] == "capacity" and not recv[4] and is_path(strip(recv[2]), "self"):
                if "capacity" not in self.ok: self.lost(e0, "self.capacity() is not the expected read of `capacity`")
                return "EField FCapacity"
        if e0[0] == "path" and len(names_of(e0)) == 1 and self.sc.get(names_of(e0)[0]) == "mutnum":
            return "EVar %s" % q(names_of(e0)[0])
        return Fn.num(self, e)

    def result(self, e):
        e0 = strip(e)
        if self.rkind == "try":
            if e0[0] == "call" and e0[2][0] == "path" and len(e0[3]) == 1:
                a = strip(e0[3][0])
                if names_of(e0[2]) == ["Ok"]: return "ROkNum (%s)" % self.num(a)
                if names_of(e0[2]) == ["Err"] and a[0] == "tuple" and not a[2]: return "RErrUnit"
            self.lost(e0, "result is not Ok(e) / Err(())")
        return Fn.result(self, e)

    def block(self, b, tail_returns):
        self.sc.push(); out = self.stmts(b, tail_returns); self.sc.pop(); return out

    def flat_block(self, e, tail_returns):
        self.sc.push(); self.sc.flat += 1
        r = self.stmts(e, tail_returns)
        self.sc.flat -= 1; self.sc.pop()
        return r

    def stmts(self, b, tail_returns):
        out = []
        for st in b[2]:
            out += self.let(st) if st[0] == "let" else self.expr_stmt(st[2], st[1])
        t = b[3]
        if t is not None:
            out += self.tail(t) if tail_returns else self.expr_stmt(t, t[1])
        return out

    def tail(self, e):
        k = e[0]
        if k == "paren": return self.tail(e[2])
        if k == "block": return self.flat_block(e, True)
        if k == "if" and e[4] is not None:
            els = self.block(e[4], True) if e[4][0] == "block" else self.tail(e[4])
            return [("if", self.boolean(e[2]), self.block(e[3], True), els, e[1])]
        if k in ("return", "if", "match", "for") or self.rkind == "unit":
            return self.expr_stmt(e, e[1])
        return [("s", "AReturn (%s)" % self.result(e), e[1])]

    def let(self, st):
        _, ln, pat, ty, init = st
        if pat[0] != "pbind": self.lost(st, "`let` pattern outside the subset")
        x, mut = pat[2], pat[3]
        e = strip(init)
        if e[0] == "mcall" and e[3] == "length" and not e[4] and is_path(strip(e[2]), "self") and not mut:
            if "length" not in self.ok: self.lost(st, "self.length() is not the expected reference to `len`")
            self.sc.bind(x, "atomlen", ln)
            return []
        d = data_ptr_add(e)
        if d is not None and not mut:
            n = self.num(d); self.sc.bind(x, "ptr", ln)
            return [("s", "ALetDataPtr %s (%s)" % (q(x), n), ln)]
        if e[0] == "call" and e[2][0] == "path" and names_of(e[2])[-2:] == ["slice", "from_raw_parts_mut"] and len(e[3]) == 2 and not mut:
            p = self.var_of(e[3][0], ("ptr",), "a pointer variable"); n = self.num(e[3][1])
            self.sc.bind(x, "rawslice", ln)
            return [("s", "ALetRawSlice %s %s (%s)" % (q(x), q(p), n), ln)]
        if ty not in (None, "usize"): self.lost(st, "type annotation `%s`" % ty)
        n = self.num(init)
        self.sc.bind(x, "mutnum" if mut else "num", ln)
        return [("s", "ALet %s (%s)" % (q(x), n), ln)]

    def expr_stmt(self, e, ln):
        k = e[0]
        if k == "paren": return self.expr_stmt(e[2], ln)
        if k == "block": return self.flat_block(e, False)
        if k == "break": return [("s", "ABreak", e[1])]
        if k == "if":
            c = strip(e[2])
            if c[0] == "macro" and c[2] == "cfg" and len(c[3]) == 1 and is_path(c[3][0], "debug_assertions") and e[4] is None:
                # debug-only block: may only bind locals and assert
                for st in e[3][2]:
                    if not (st[0] == "let" or (st[0] == "expr" and st[2][0] == "macro" and st[2][2].startswith("debug_assert"))):
                        self.lost(st, "`if cfg!(debug_assertions)` block with something else than lets and debug_asserts")
                if e[3][3] is not None: self.lost(e, "`if cfg!(debug_assertions)` block with a value")
                return self.flat_block(e[3], False)
            els = []
            if e[4] is not None:
                els = self.block(e[4], False) if e[4][0] == "block" else self.expr_stmt(e[4], e[4][1])
            return [("if", self.boolean(e[2]), self.block(e[3], False), els, e[1])]
        if k == "return":
            if e[2] is None: return [("s", "AReturn RUnit", e[1])]
            return [("s", "AReturn (%s)" % self.result(e[2]), e[1])]
        if k == "macro":
            if e[2] == "verif_point": return []
            if e[2] == "debug_assert" and e[3] and (len(e[3]) == 1 or e[3][1][0] == "strlit"):
                return [("s", "AAssert (%s)" % self.boolean(e[3][0]), e[1])]
            if e[2] in ("debug_assert_ne", "debug_assert_eq") and len(e[3]) == 2:
                c = "BEq (%s) (%s)" % (self.num(e[3][0]), self.num(e[3][1]))
                return [("s", "AAssert (%s)" % (c if e[2].endswith("eq") else "BNot (%s)" % c), e[1])]
            self.lost(e, "macro `%s!` is outside the subset" % e[2])
        if k == "call" and e[2][0] == "path" and names_of(e[2])[-2:] == ["hint", "spin_loop"] and not e[3]:
            return []
        if k == "assign" and e[2] == "=":
            lhs = strip(e[3])
            if lhs[0] == "path" and len(names_of(lhs)) == 1 and self.sc.get(names_of(lhs)[0]) == "mutnum":
                return [("s", "AAssign %s (%s)" % (q(names_of(lhs)[0]), self.num(e[4])), e[1])]
            if len_exclusive(lhs):
                return [("s", "AWriteLen (%s)" % self.num(e[4]), e[1])]
            self.lost(e, "assignment target outside the subset")
        if k == "for":
            pat, it, body = e[2], strip(e[3]), e[4]
            if pat[0] == "pwild" and it[0] == "range" and it[2][0] == "lit" and it[2][2] == 0 and it[3][0] == "lit" and it[3][2] <= 1000:
                return [("loop", it[3][2], self.block(body, False), e[1])]
            self.lost(e, "`for` loop is not `for _ in 0..<literal>`")
        if k == "match":
            return self.cas(e)
        if k == "mcall":
            recv, name, args = strip(e[2]), e[3], e[4]
            if name == "copy_from_slice" and len(args) == 1:
                t = self.var_of(recv, ("rawslice",), "a raw slice variable")
                self.var_of(args[0], ("str",), "the byte slice argument")
                return [("s", "ACopyFromSlice %s" % q(t), e[1])]
            if name == "set_len" and len(args) == 1 and is_path(recv, "self"):
                self.known.need("UniqueBucketRef", "set_len", e[1])
                return [("s", "ASetLen (%s)" % self.num(args[0]), e[1])]
            self.lost(e, "method call statement `.%s(..)` is outside the subset" % name)
        self.lost(e, "statement form `%s` is outside the subset" % k)

    def cas(self, e):
        _, ln, scrut, arms = e
        s = strip(scrut)
        if not (s[0] == "mcall" and s[3] in ("compare_exchange_weak", "compare_exchange") and len(s[4]) == 4
                and is_ordering(s[4][2]) and is_ordering(s[4][3])):
            self.lost(e, "`match` scrutinee is not <len>.compare_exchange[_weak](old, new, Ordering::_, Ordering::_)")
        self.var_of(s[2], ("atomlen",), "the bucket's atomic `len`")
        old, new = self.num(s[4][0]), self.num(s[4][1])
        if len(arms) != 2: self.lost(e, "`match` on a CAS result must have exactly an Ok and an Err arm")
        okb = errb = x = None
        for pat, body in arms:
            if not (pat[0] == "ptuplestruct" and len(pat[3]) == 1 and body[0] == "block"): self.lost(e, "match arm outside the subset")
            if is_path(pat[2], "Ok") and pat[3][0][0] == "pwild":
                okb = self.block(body, False)
            elif is_path(pat[2], "Err") and pat[3][0][0] == "pbind" and not pat[3][0][3]:
                x = pat[3][0][2]
                self.sc.push(); self.sc.bind(x, "num", pat[1]); errb = self.stmts(body, False); self.sc.pop()
            else:
                self.lost(e, "match arm pattern is not Ok(_) / Err(<name>)")
        if okb is None or errb is None: self.lost(e, "`match` on a CAS result must have exactly an Ok and an Err arm")
        return [("cas", old, new, okb, x, errb, ln)]


def check_layout(parser, abfns, path, known, prep):
    """shape of AtomicBucket::layout and AtomicBucket::with_capacity; returns the text of `gen_ab_layout`"""
    def lost(e, what): raise Lost(e[1], what)
    f = check_sig(abfns, "AtomicBucket", "layout", ["NonZeroUsize"], "LassoResult<Layout>", path)
    par = f[4][0][0]
    fnl = AbFn("layout", known, set()); fnl.sc.bind(par, "nz", f[1])
    body = prep(f, "AtomicBucket")
    stmts = list(body[2]); header = []; names = []
    while stmts and stmts[0][0] == "let" and strip(stmts[0][4])[0] == "call" and strip(stmts[0][4])[2][0] == "path" \
            and len(strip(stmts[0][4])[2][2]) == 2 and strip(stmts[0][4])[2][2][0] == "Layout" \
            and isinstance(strip(stmts[0][4])[2][2][1], tuple) and strip(stmts[0][4])[2][2][1][0] == "new" and not strip(stmts[0][4])[3]:
        header.append(strip(stmts[0][4])[2][2][1][1]); names.append(stmts[0][2][2]); stmts = stmts[1:]
    if len(header) != 3: lost(body, "AtomicBucket::layout does not start with three `Layout::new::<T>()` header layouts")

    def layout_args(c, fname):
        c = strip(c)
        if not (c[0] == "call" and is_path(c[2], "Layout", fname) and len(c[3]) == 2): return None
        al = strip(c[3][1])
        if not (al[0] == "call" and al[2][0] == "path" and isinstance(al[2][2][-1], tuple) and al[2][2][-1] == ("align_of", "u8")):
            lost(c, "alignment argument is not align_of::<u8>()")
        return fnl.num(c[3][0])
    asserted = None
    if stmts and stmts[0][0] == "expr" and stmts[0][2][0] == "macro" and stmts[0][2][2] == "debug_assert" and len(stmts[0][2][3]) == 1:
        a = strip(stmts[0][2][3][0])
        if a[0] == "mcall" and a[3] == "is_ok" and not a[4]: asserted = layout_args(a[2], "from_size_align")
        if asserted is None: lost(stmts[0], "debug_assert! in layout is not `Layout::from_size_align(..).is_ok()`")
        stmts = stmts[1:]
    if len(stmts) != 1 or stmts[0][0] != "let" or body[3] is None: lost(body, "AtomicBucket::layout: expected `let data = ..;` and the extend chain")
    dname = stmts[0][2][2]; e1 = strip(stmts[0][4]); kind = None
    if e1[0] == "try":
        m = strip(e1[2])
        if m[0] == "mcall" and m[3] == "map_err" and len(m[4]) == 1 and m[4][0][0] == "closure" and m[4][0][2] == ["_"]:
            size = layout_args(m[2], "from_size_align")
            if size is not None and asserted is None: kind = "LayoutChecked %s" % fnl.errkind(m[4][0][3])
    else:
        size = layout_args(e1, "from_size_align_unchecked")
        if size is not None: kind = "LayoutUnchecked (%s)" % ("Some (%s)" % asserted if asserted else "None")
    if kind is None: lost(stmts[0], "data layout is neither the checked nor the unchecked recognised form")
    # next.extend(len).and_then(|(l, _)| l.extend(cap)).and_then(|(l, _)| l.extend(data)).map(|(l, _)| l.pad_to_align()).map_err(|_| ..)
    t = strip(body[3])

    def clos(c, meth, arg):
        if not (c[0] == "closure" and len(c[2]) == 1 and isinstance(c[2][0], tuple) and len(c[2][0]) == 2 and c[2][0][1] == "_"): return False
        b = strip(c[3])
        return b[0] == "mcall" and b[3] == meth and is_path(strip(b[2]), c[2][0][0]) and \
            ((arg is None and not b[4]) or (arg is not None and len(b[4]) == 1 and is_path(strip(b[4][0]), arg)))
    ok = t[0] == "mcall" and t[3] == "map_err" and len(t[4]) == 1 and t[4][0][0] == "closure" and t[4][0][2] == ["_"]
    if ok:
        err = fnl.errkind(t[4][0][3]); m = strip(t[2])
        ok = m[0] == "mcall" and m[3] == "map" and len(m[4]) == 1 and clos(m[4][0], "pad_to_align", None)
    if ok:
        a2 = strip(m[2]); ok = a2[0] == "mcall" and a2[3] == "and_then" and len(a2[4]) == 1 and clos(a2[4][0], "extend", dname)
    if ok:
        a1 = strip(a2[2]); ok = a1[0] == "mcall" and a1[3] == "and_then" and len(a1[4]) == 1 and clos(a1[4][0], "extend", names[2])
    if ok:
        x = strip(a1[2]); ok = x[0] == "mcall" and x[3] == "extend" and is_path(strip(x[2]), names[0]) and len(x[4]) == 1 and is_path(strip(x[4][0]), names[1])
    if not ok:
        # second accepted shape (after normalisation):  { let (h, _) = next.extend(len)?; let (h, _) = h.extend(cap)?;
        #                                                let (b, _) = h.extend(data)?; Ok(b.pad_to_align()) }.map_err(|_| ..)
        ok = t[0] == "mcall" and t[3] == "map_err" and len(t[4]) == 1 and t[4][0][0] == "closure" and t[4][0][2] == ["_"] and t[2][0] == "block"
        if ok:
            err = fnl.errkind(t[4][0][3]); blk = t[2]; cur = names[0]
            ok = len(blk[2]) == 3 and blk[3] is not None
            for st, arg in zip(blk[2] if ok else [], [names[1], names[2], dname]):
                v = strip(st[4]) if st[0] == "let" else None
                ok = ok and st[0] == "let" and st[2][0] == "ptuple" and len(st[2][2]) == 2 and st[2][2][0][0] == "pbind" \
                    and v[0] == "try" and strip(v[2])[0] == "mcall" and strip(v[2])[3] == "extend" and is_path(strip(strip(v[2])[2]), cur) \
                    and len(strip(v[2])[4]) == 1 and is_path(strip(strip(v[2])[4][0]), arg)
                if ok: cur = st[2][2][0][2]
            if ok:
                r = strip(blk[3])
                ok = r[0] == "call" and is_path(r[2], "Ok") and len(r[3]) == 1 and strip(r[3][0])[0] == "mcall" \
                    and strip(r[3][0])[3] == "pad_to_align" and not strip(r[3][0])[4] and is_path(strip(strip(r[3][0])[2]), cur)
    if not ok: lost(t, "AtomicBucket::layout does not end with the extend / pad_to_align / map_err chain")
    # with_capacity: let layout = Self::layout(capacity)?; .. alloc(layout) ..; fields len := 0, capacity := capacity
    w = check_sig(abfns, "AtomicBucket", "with_capacity", ["NonZeroUsize"], "LassoResult<UniqueBucketRef>", path)
    wp = w[4][0][0]; wb = prep(w, "AtomicBucket")
    s0 = wb[2][0] if wb[2] else None
    if not (s0 and s0[0] == "let" and strip(s0[4])[0] == "try" and strip(strip(s0[4])[2])[0] == "call"
            and names_of(strip(strip(s0[4])[2])[2]) in (["Self", "layout"], ["AtomicBucket", "layout"])
            and len(strip(strip(s0[4])[2])[3]) == 1 and is_path(strip(strip(strip(s0[4])[2])[3][0]), wp)):
        lost(w, "AtomicBucket::with_capacity does not start with `let layout = Self::layout(capacity)?;`")
    writes = {}

    def walk(e):
        if isinstance(e, tuple):
            if e and e[0] == "mcall" and e[3] == "write" and len(e[4]) == 1 and e[2][0] == "macro" and e[2][2] == "addr_of_mut" and len(e[2][3]) == 1:
                tgt = strip(e[2][3][0])
                if tgt[0] == "field": writes[tgt[3]] = strip(e[4][0])
            for x in e: walk(x)
        elif isinstance(e, list):
            for x in e: walk(x)
    walk(wb)
    if set(writes) != {"next", "len", "capacity"}: lost(w, "with_capacity does not initialise exactly next, len, capacity")
    l0 = writes["len"]
    if not (l0[0] == "call" and is_path(l0[2], "AtomicUsize", "new") and len(l0[3]) == 1 and strip(l0[3][0])[0] == "lit" and strip(l0[3][0])[2] == 0):
        lost(w, "with_capacity does not initialise len with AtomicUsize::new(0)")
    if not is_path(writes["capacity"], wp): lost(w, "with_capacity does not initialise capacity with its argument")
    return "(* %s:%d-%d  fn AtomicBucket::layout (shape only), %d-%d fn AtomicBucket::with_capacity (shape only) *)\n" \
           "Definition gen_ab_layout : ablayout :=\n  mkAbLayout [%s] (%s)\n    (* data size *) (%s) %s.\n" % (
               "src/arenas/atomic_bucket.rs", f[1], f[7], w[1], w[7], "; ".join(q(h) for h in header), kind, size, err)


def app(stmts, ind, rel):
    pad = " " * ind
    if not stmts: return "ASkip"
    items = []
    for s in stmts:
        if s[0] == "s":
            items.append("%s  (* %s:%d *) %s" % (pad, rel, s[2], s[1]))
        elif s[0] == "if":
            items.append("%s  (* %s:%d *) AIf (%s)\n%s    (%s)\n%s    (%s)" % (pad, rel, s[4], s[1], pad, app(s[2], ind + 4, rel), pad, app(s[3], ind + 4, rel)))
        elif s[0] == "loop":
            items.append("%s  (* %s:%d *) ALoopN %d%%nat\n%s    (%s)" % (pad, rel, s[3], s[1], pad, app(s[2], ind + 4, rel)))
        else:
            items.append("%s  (* %s:%d *) ACasLen (%s) (%s)\n%s    (%s)\n%s    %s\n%s    (%s)" % (
                pad, rel, s[6], s[1], s[2], pad, app(s[3], ind + 4, rel), pad, q(s[4]), pad, app(s[5], ind + 4, rel)))
    return "ablock [\n" + ";\n".join(items) + " ]"


def run(repo, out):
    rel = "src/arenas/atomic_bucket.rs"
    path = os.path.join(repo, rel)
    known = Known()
    try:
        parser, items = rsparse.parse_file(path)
        st = [i for i in items if i[0] == "struct" and i[3] == "AtomicBucket"]
        if len(st) != 1 or dict(st[0][4] or []) != AB_FIELDS or len(st[0][4]) != 4:
            raise Lost(st[0][1] if st else 1, "struct AtomicBucket does not have exactly the fields %s" % AB_FIELDS)
        bref, uref = impl_fns(items, "BucketRef", path), impl_fns(items, "UniqueBucketRef", path)

        import astx
        inlined = set()
        # interpreted by the lowering itself (accessors after a shape check, set_len by specification): not inlined
        KEEP = {"as_ptr", "length", "capacity", "len", "set_len", "layout", "new"}

        def prep(f, ty):
            b, inl = astx.prepare(parser, items, f, ty, lambda t, n, node: n in KEEP or t is None,
                                  adjacent_methods=("compare_exchange_weak", "compare_exchange"))
            inlined.update(inl)
            return b

        def body_of(fns, ty, name, params, ret):
            return strip(prep(check_sig(fns, ty, name, params, ret, path), ty))

        ok_b, ok_u = set(), set()
        b = body_of(bref, "BucketRef", "length", ["&self"], "&AtomicUsize")
        if b[0] == "ref" and not b[2] and deref_self_field(b[3], "len"): ok_b.add("length")
        b = body_of(bref, "BucketRef", "capacity", ["&self"], "NonZeroUsize")
        if deref_self_field(b, "capacity"): ok_b.add("capacity")
        b = body_of(uref, "UniqueBucketRef", "capacity", ["&self"], "NonZeroUsize")
        if b[0] == "mcall" and b[3] == "capacity" and not b[4] and strip(b[2])[0] == "field" and strip(b[2])[3] == "bucket" \
                and is_path(strip(strip(b[2])[2]), "self") and "capacity" in ok_b:
            ok_u.add("capacity")
        b = body_of(uref, "UniqueBucketRef", "len", ["&self"], "usize")
        if len_exclusive(b): ok_u.add("len")

        parts = [check_layout(parser, impl_fns(items, "AtomicBucket", path), path, known, prep)]
        for fns, ty, name, gen, params, ret, rk, kinds, ok in [
                (bref, "BucketRef", "try_inc_length", "gen_ab_try_inc_length", ["&self", "usize"], "Result<usize,()>", "try", ["num"], ok_b),
                (uref, "UniqueBucketRef", "set_len", "gen_ab_set_len", ["&mut self", "usize"], None, "unit", ["num"], ok_u),
                (uref, "UniqueBucketRef", "push_slice", "gen_ab_push_slice", ["&mut self", "&[u8]"], "&'static str", "str", ["str"], ok_u)]:
            f = check_sig(fns, ty, name, params, ret, path)
            fnl = AbFn(rk, known, ok)
            ps = []
            for (p, _t), kd in zip([x for x in f[4] if x[0] != "self"], kinds):
                fnl.sc.bind(p, kd, f[1])
                if kd == "num": ps.append(p)
            stl = fnl.stmts(prep(f, ty), True)
            if rk == "unit": stl.append(("s", "AReturn RUnit", f[7]))
            parts.append("(* %s:%d-%d  fn %s::%s *)\nDefinition %s : afundef := mkAFun [%s]\n  (%s).\n" % (
                rel, f[1], f[7], ty, name, gen, "; ".join(q(p) for p in ps), app(stl, 2, rel)))
    except Lost as e:
        if not getattr(e, "file", None): e.file = path
        raise
    hdr = """(* AtomicBucketGen.v -- GENERATED by rust2coq.py from %s
   DO NOT EDIT: regenerated on every run.  Terms of the IR of GenIRAb.v.  ONE-THREAD VIEW: `len` is read as a plain
   field, compare_exchange succeeds iff the field has the expected value, verif_point!/spin_loop do nothing.
   Accessors checked to be plain reads through the raw pointer: BucketRef::{%s}, UniqueBucketRef::{%s}. *)
From Lasso Require Import Base Arena.
From LassoGen Require Import GenPrelude GenIR GenIRLf GenIRAb.
Open Scope string_scope.
Open Scope N_scope.

""" % (path, ", ".join(sorted(ok_b)), ", ".join(sorted(ok_u)))
    tail = "\n#[global] Hint Unfold gen_ab_layout gen_ab_try_inc_length gen_ab_set_len gen_ab_push_slice : arenagen.\n"
    open(os.path.join(out, "AtomicBucketGen.v"), "w").write(hdr + "\n".join(parts) + tail)
    print("rust2coq: atomic_bucket: 4 definitions -> %s" % os.path.join(out, "AtomicBucketGen.v"))
