(* ViewsGenProofs.v -- HAND-WRITTEN ONCE (not generated).  The read-only views (src/reader.rs, src/resolver.rs):
   (1) their methods, regenerated as IR terms (ViewsGen.v) and run by the interpreter of GenIRRodeo.v on the components the
       view holds, are the very model functions that Rodeo.step applies to `OReader r` / `OResolver strs a`:
       r_get, strs_contains_key, strs_resolve_ref (read: strs_resolve), length of the string table -- for ALL states;
   (2) the constructors and conversions only MOVE components: the view's components are the interner's
       (OReader r holds the same rodeo record; the resolver holds (rstrs r, rar r)).
   The resolver's methods are stated for an arbitrary table [rmap r]: they never look at it.  One generic tactic. *)
From Lasso Require Import Base Arena Rodeo.
From LassoGen Require Import GenPrelude GenIR GenIRRodeo GenTactics GenTacticsRodeo ViewsGen.
Open Scope N_scope.

(* which component of the source object ends up in field [f] of the view built by `new` *)
Definition moved (newd conv : list (string * string)) (f : string) : option string :=
  match lookup f newd with Some p => lookup p conv | None => None end.

Section Proofs.
  Variable hash : str -> N.
  Variable cand : N -> N -> bool.
  Variable growf : N -> bool.
  Variable keycap : N.
  Notation run := (run_rfun hash cand growf keycap).

  (* ---------------- RodeoReader ---------------- *)
  Theorem gen_reader_get_eq : forall r s,
    fst (run gen_reader_get r 0 s []) = Some (RDone r (RvOptKey (r_get hash cand r s))).
  Proof. gen_rodeo_tac. Qed.
  Theorem gen_reader_get_safe : forall r s, table_keys_ok (rmap r) (rstrs r) -> snd (run gen_reader_get r 0 s []).
  Proof. gen_rodeo_tac. Qed.

  Theorem gen_reader_contains_eq : forall r s,
    fst (run gen_reader_contains r 0 s [])
    = Some (RDone r (RvBool (match r_get hash cand r s with Some _ => true | None => false end)))
    /\ snd (run gen_reader_contains r 0 s []).
  Proof. split; gen_rodeo_tac. Qed.

  Theorem gen_reader_contains_key_eq : forall r s k,
    fst (run gen_reader_contains_key r 0 s [k]) = Some (RDone r (RvBool (strs_contains_key (rstrs r) k)))
    /\ snd (run gen_reader_contains_key r 0 s [k]).
  Proof. split; gen_rodeo_tac. Qed.

  Theorem gen_reader_try_resolve_eq : forall r s k,
    fst (run gen_reader_try_resolve r 0 s [k]) = Some (RDone r (RvOptRef (strs_resolve_ref (rstrs r) k)))
    /\ snd (run gen_reader_try_resolve r 0 s [k]).
  Proof. split; gen_rodeo_tac. Qed.

  Theorem gen_reader_resolve_eq : forall r s k,
    fst (run gen_reader_resolve r 0 s [k])
    = Some (match strs_resolve_ref (rstrs r) k with Some rf => RDone r (RvRef rf) | None => RPanic r end)
    /\ snd (run gen_reader_resolve r 0 s [k]).
  Proof. split; gen_rodeo_tac. Qed.

  Theorem gen_reader_len_eq : forall r s,
    fst (run gen_reader_len r 0 s []) = Some (RDone r (RvNum (N.of_nat (List.length (rstrs r)))))
    /\ snd (run gen_reader_len r 0 s []).
  Proof. split; gen_rodeo_tac. Qed.

  Theorem gen_reader_is_empty_eq : forall r s,
    fst (run gen_reader_is_empty r 0 s []) = Some (RDone r (RvBool (N.of_nat (List.length (rstrs r)) =? 0)))
    /\ snd (run gen_reader_is_empty r 0 s []).
  Proof. split; gen_rodeo_tac. Qed.

  (* ---------------- RodeoResolver: only the string table matters ---------------- *)
  Theorem gen_resolver_contains_key_eq : forall r s k,
    fst (run gen_resolver_contains_key r 0 s [k]) = Some (RDone r (RvBool (strs_contains_key (rstrs r) k)))
    /\ snd (run gen_resolver_contains_key r 0 s [k]).
  Proof. split; gen_rodeo_tac. Qed.

  Theorem gen_resolver_try_resolve_eq : forall r s k,
    fst (run gen_resolver_try_resolve r 0 s [k]) = Some (RDone r (RvOptRef (strs_resolve_ref (rstrs r) k)))
    /\ snd (run gen_resolver_try_resolve r 0 s [k]).
  Proof. split; gen_rodeo_tac. Qed.

  Theorem gen_resolver_resolve_eq : forall r s k,
    fst (run gen_resolver_resolve r 0 s [k])
    = Some (match strs_resolve_ref (rstrs r) k with Some rf => RDone r (RvRef rf) | None => RPanic r end)
    /\ snd (run gen_resolver_resolve r 0 s [k]).
  Proof. split; gen_rodeo_tac. Qed.

  Theorem gen_resolver_len_eq : forall r s,
    fst (run gen_resolver_len r 0 s []) = Some (RDone r (RvNum (N.of_nat (List.length (rstrs r)))))
    /\ snd (run gen_resolver_len r 0 s []).
  Proof. split; gen_rodeo_tac. Qed.

  Theorem gen_resolver_is_empty_eq : forall r s,
    fst (run gen_resolver_is_empty r 0 s []) = Some (RDone r (RvBool (N.of_nat (List.length (rstrs r)) =? 0)))
    /\ snd (run gen_resolver_is_empty r 0 s []).
  Proof. split; gen_rodeo_tac. Qed.
End Proofs.

(* ---------------- constructors and conversions: the view's components ARE the interner's ---------------- *)

(* Rodeo::into_reader: the reader holds the interner's map, hasher, strings and (as AnyArena::Arena) its arena *)
Theorem gen_rodeo_into_reader_moves :
  moved gen_reader_new gen_rodeo_into_reader "map" = Some "map"%string /\
  moved gen_reader_new gen_rodeo_into_reader "hasher" = Some "hasher"%string /\
  moved gen_reader_new gen_rodeo_into_reader "strings" = Some "strings"%string /\
  moved gen_reader_new gen_rodeo_into_reader "__arena" = Some "Arena(arena)"%string /\
  List.length gen_reader_new = 4%nat.
Proof. repeat autounfold with arenagen. vm_compute. repeat split. Qed.

(* Rodeo::into_resolver: the resolver holds the interner's strings and arena *)
Theorem gen_rodeo_into_resolver_moves :
  moved gen_resolver_new gen_rodeo_into_resolver "strings" = Some "strings"%string /\
  moved gen_resolver_new gen_rodeo_into_resolver "__arena" = Some "Arena(arena)"%string /\
  List.length gen_resolver_new = 2%nat.
Proof. repeat autounfold with arenagen. vm_compute. repeat split. Qed.

(* RodeoReader::into_resolver: the resolver holds the reader's strings and arena *)
Theorem gen_reader_into_resolver_moves :
  moved gen_resolver_new gen_reader_into_resolver "strings" = Some "strings"%string /\
  moved gen_resolver_new gen_reader_into_resolver "__arena" = Some "__arena"%string.
Proof. repeat autounfold with arenagen. vm_compute. repeat split. Qed.

Print Assumptions gen_reader_get_eq.
Print Assumptions gen_reader_get_safe.
Print Assumptions gen_reader_contains_eq.
Print Assumptions gen_reader_contains_key_eq.
Print Assumptions gen_reader_try_resolve_eq.
Print Assumptions gen_reader_resolve_eq.
Print Assumptions gen_reader_len_eq.
Print Assumptions gen_reader_is_empty_eq.
Print Assumptions gen_resolver_contains_key_eq.
Print Assumptions gen_resolver_try_resolve_eq.
Print Assumptions gen_resolver_resolve_eq.
Print Assumptions gen_resolver_len_eq.
Print Assumptions gen_resolver_is_empty_eq.
Print Assumptions gen_rodeo_into_reader_moves.
Print Assumptions gen_rodeo_into_resolver_moves.
Print Assumptions gen_reader_into_resolver_moves.
