(* SerdeGenProofs.v -- HAND-WRITTEN ONCE (not generated).  The serde impls of lasso (SerdeGen.v, interpreted by
   GenIRSerde.v) are the model's de_rodeo / de_resolver / documents (Rodeo.step: De, Ser), for ALL documents, hashers,
   probe relations, growth policies and key capacities.  The loop is related to de_list_loop by ONE induction. *)
From Lasso Require Import Base Arena Rodeo.
From LassoGen Require Import GenPrelude GenIR GenIRRodeo GenIRSerde GenTactics GenTacticsRodeo SerdeGen.
Open Scope N_scope.

Ltac serde_run :=
  repeat (cbn [ds_idx ds_body ds_bytes ds_limit dblock fold_right dexec lookup neval String.eqb Ascii.eqb Bool.eqb
               d_r d_nums d_refs d_probes d_vac d_ok rmap rstrs rar fst snd];
          unfold try_key; rodeo_step).

(* (placed in front of the Section: check_thms.py re-checks a failing file theorem by theorem, giving each theorem the
   proved theorems BEFORE it; theorems of a closed Section could not be replayed there) *)
(* ---------------- Deserialize for ThreadedRodeo ---------------- *)
Theorem gen_de_threaded_loop_eq : forall l t next,
  det_loop (td_body gen_de_threaded) l t next = Some (de_threaded_loop l t next).
Proof.
  induction l as [|[s k] rest IH]; intros t next; [reflexivity|].
  cbn [det_loop de_threaded_loop]. repeat autounfold with arenagen.
  cbn [td_body texec texec1 tar tmap tstrs tkey].
  destruct (lf_store (tar t) s) as [a' [rf|e]]; [|reflexivity].
  cbn [texec texec1 lookup String.eqb Ascii.eqb Bool.eqb tar tmap tstrs tkey].
  specialize (IH (mkT (filter (fun e => negb match read a' (fst e) with Some s' => str_eqb s s' | None => false end) (tmap t) ++ [(rf, k)])
                      (strs_insert k rf (tstrs t)) (tkey t) a') (if next <=? k then k + 1 else next)).
  repeat autounfold with arenagen in IH. cbn [td_body] in IH. exact IH.
Qed.

(* the key check (F4 repair), the arena sized to the strings, the counter one past the highest key (F3 repair) *)
Theorem gen_de_threaded_eq : forall l, run_tdeser gen_de_threaded l = Some (de_threaded l).
Proof.
  intros l. unfold run_tdeser, de_threaded, de_threaded_gen, doc_bytes.
  replace (td_check gen_de_threaded) with true by reflexivity.
  replace (td_bytes gen_de_threaded) with BSumOrDefault by reflexivity.
  replace (td_limit gen_de_threaded) with DLimUsizeMax by reflexivity.
  replace (td_next0 gen_de_threaded) with 0 by reflexivity.
  destruct (true && negb (keys_dense l (repeat false (List.length l)))); [reflexivity|].
  cbn [bytes_of limit_of]. rewrite gen_de_threaded_loop_eq.
  destruct (de_threaded_loop l _ 0); reflexivity.
Qed.

Section Proofs.
  Variable hash : str -> N.
  Variable cand : N -> N -> bool.
  Variable growf : N -> bool.
  Variable keycap : N.

  (* the loop of Deserialize for Rodeo: string by string, position by position, the model's de_list_loop (repaired: F5) *)
  Theorem gen_de_rodeo_loop_eq : forall l pos r,
    fst (de_loop hash cand growf keycap (ds_idx gen_de_rodeo) (ds_body gen_de_rodeo) l pos r)
    = Some (de_list_loop hash cand growf keycap true l pos r).
  Proof.
    induction l as [|s rest IH]; intros pos r; [reflexivity|].
    cbn [de_loop de_list_loop]. repeat autounfold with arenagen.
    serde_run; cbn;
    try match goal with
        | |- context [de_loop ?h ?c ?g ?k ?i ?b rest ?p ?d] =>
            specialize (IH p d); repeat autounfold with arenagen in IH; cbn [ds_idx ds_body dblock fold_right] in IH;
            destruct (de_loop h c g k i b rest p d) as [res okr]; cbn in IH |- *; exact IH
        end;
    try reflexivity; try (exfalso; lia).
  Qed.

  Theorem gen_de_rodeo_eq : forall l,
    fst (run_deser hash cand growf keycap gen_de_rodeo l) = Some (de_rodeo hash cand growf keycap l).
  Proof.
    intros l. unfold run_deser, de_rodeo, de_rodeo_gen, doc_bytes.
    replace (ds_bytes gen_de_rodeo) with BSumOrDefault by reflexivity.
    replace (ds_limit gen_de_rodeo) with DLimUsizeMax by reflexivity.
    cbn [bytes_of limit_of]. apply gen_de_rodeo_loop_eq.
  Qed.

  Lemma table_keys_ok_tinsert_d t strs a h k :
    table_keys_ok ((h, k) :: t) strs -> table_keys_ok (tinsert hash growf t strs a h k) strs.
  Proof.
    unfold table_keys_ok, tinsert. intros H. inversion H as [|x l Hx Ht]; subst. constructor; [exact Hx|].
    destruct (growf _); [|exact Ht].
    apply Forall_forall. intros e He. apply in_map_iff in He as (e0 & <- & Hin). cbn [snd].
    exact (proj1 (Forall_forall _ _) Ht e0 Hin).
  Qed.

  Lemma table_keys_ok_app_d t strs x : table_keys_ok t strs -> table_keys_ok t (strs ++ [x]).
  Proof.
    unfold table_keys_ok. intros H. eapply Forall_impl; [|exact H]. cbv beta. intros e He.
    rewrite app_length. cbn [List.length]. lia.
  Qed.

  (* every index_unchecked! inside the table closures of the loop body is in bounds, in every iteration *)
  Theorem gen_de_rodeo_loop_safe : forall l pos r,
    table_keys_ok (rmap r) (rstrs r) -> pos = N.of_nat (List.length (rstrs r)) ->
    snd (de_loop hash cand growf keycap (ds_idx gen_de_rodeo) (ds_body gen_de_rodeo) l pos r).
  Proof.
    induction l as [|s rest IH]; intros pos r Hk Hp; [exact I|].
    cbn [de_loop]. repeat autounfold with arenagen.
    serde_run; cbn.
    all: try match goal with
        | |- context [de_loop ?h ?c ?g ?k ?i ?b ?rs ?p ?d] =>
            let Hn := fresh in
            assert (Hn : snd (de_loop h c g k i b rs p d));
            [ specialize (IH p d); repeat autounfold with arenagen in IH; cbn [ds_idx ds_body dblock fold_right] in IH; apply IH; cbn [rmap rstrs rar];
              [ apply table_keys_ok_tinsert_d; constructor;
                [ cbn [snd]; rewrite app_length; cbn [List.length]; lia | apply table_keys_ok_app_d; exact Hk ]
              | rewrite app_length; cbn [List.length]; lia ]
            | destruct (de_loop h c g k i b rs p d) as [res okr]; cbn [snd] in Hn |- * ]
        end.
    all: repeat match goal with |- _ /\ _ => split | |- True => exact I end.
    all: try assumption.
    all: try (constructor; [cbn [snd]; rewrite app_length; cbn [List.length]; lia | apply table_keys_ok_app_d; exact Hk]).
  Qed.

  Theorem gen_de_rodeo_safe : forall l, snd (run_deser hash cand growf keycap gen_de_rodeo l).
  Proof.
    intros l. unfold run_deser.
    replace (ds_bytes gen_de_rodeo) with BSumOrDefault by reflexivity.
    cbn [bytes_of]. apply gen_de_rodeo_loop_safe; [constructor|reflexivity].
  Qed.

  (* ---- Deserialize for RodeoReader: the same loop ---- *)
  Theorem gen_de_reader_loop_eq : forall l pos r,
    fst (de_loop hash cand growf keycap (ds_idx gen_de_reader) (ds_body gen_de_reader) l pos r)
    = Some (de_list_loop hash cand growf keycap true l pos r).
  Proof.
    induction l as [|s rest IH]; intros pos r; [reflexivity|].
    cbn [de_loop de_list_loop]. repeat autounfold with arenagen.
    serde_run; cbn;
    try match goal with
        | |- context [de_loop ?h ?c ?g ?k ?i ?b rest ?p ?d] =>
            specialize (IH p d); repeat autounfold with arenagen in IH; cbn [ds_idx ds_body dblock fold_right] in IH;
            destruct (de_loop h c g k i b rest p d) as [res okr]; cbn in IH |- *; exact IH
        end;
    try reflexivity; try (exfalso; lia).
  Qed.

  Theorem gen_de_reader_eq : forall l,
    fst (run_deser hash cand growf keycap gen_de_reader l) = Some (de_rodeo hash cand growf keycap l).
  Proof.
    intros l. unfold run_deser, de_rodeo, de_rodeo_gen, doc_bytes.
    replace (ds_bytes gen_de_reader) with BSumOrDefault by reflexivity.
    replace (ds_limit gen_de_reader) with DLimUsizeMax by reflexivity.
    cbn [bytes_of limit_of]. apply gen_de_reader_loop_eq.
  Qed.

  Theorem gen_de_reader_loop_safe : forall l pos r,
    table_keys_ok (rmap r) (rstrs r) -> pos = N.of_nat (List.length (rstrs r)) ->
    snd (de_loop hash cand growf keycap (ds_idx gen_de_reader) (ds_body gen_de_reader) l pos r).
  Proof.
    induction l as [|s rest IH]; intros pos r Hk Hp; [exact I|].
    cbn [de_loop]. repeat autounfold with arenagen.
    serde_run; cbn.
    all: try match goal with
        | |- context [de_loop ?h ?c ?g ?k ?i ?b ?rs ?p ?d] =>
            let Hn := fresh in
            assert (Hn : snd (de_loop h c g k i b rs p d));
            [ specialize (IH p d); repeat autounfold with arenagen in IH; cbn [ds_idx ds_body dblock fold_right] in IH; apply IH; cbn [rmap rstrs rar];
              [ apply table_keys_ok_tinsert_d; constructor;
                [ cbn [snd]; rewrite app_length; cbn [List.length]; lia | apply table_keys_ok_app_d; exact Hk ]
              | rewrite app_length; cbn [List.length]; lia ]
            | destruct (de_loop h c g k i b rs p d) as [res okr]; cbn [snd] in Hn |- * ]
        end.
    all: repeat match goal with |- _ /\ _ => split | |- True => exact I end.
    all: try assumption.
    all: try (constructor; [cbn [snd]; rewrite app_length; cbn [List.length]; lia | apply table_keys_ok_app_d; exact Hk]).
  Qed.

  Theorem gen_de_reader_safe : forall l, snd (run_deser hash cand growf keycap gen_de_reader l).
  Proof.
    intros l. unfold run_deser.
    replace (ds_bytes gen_de_reader) with BSumOrDefault by reflexivity.
    cbn [bytes_of]. apply gen_de_reader_loop_safe; [constructor|reflexivity].
  Qed.

  (* ---- Deserialize for RodeoResolver: store and push, no table ---- *)
  Theorem gen_de_resolver_loop_eq : forall l pos r,
    option_map strip_table (fst (de_loop hash cand growf keycap (ds_idx gen_de_resolver) (ds_body gen_de_resolver) l pos r))
    = Some (de_resolver_loop l (rstrs r) (rar r)).
  Proof.
    induction l as [|s rest IH]; intros pos r; [reflexivity|].
    cbn [de_loop de_resolver_loop]. repeat autounfold with arenagen.
    serde_run; cbn;
    try match goal with
        | |- context [de_loop ?h ?c ?g ?k ?i ?b rest ?p ?d] =>
            specialize (IH p d); repeat autounfold with arenagen in IH; cbn [ds_idx ds_body dblock fold_right] in IH;
            destruct (de_loop h c g k i b rest p d) as [res okr]; cbn in IH |- *; exact IH
        end;
    try reflexivity.
  Qed.

  Theorem gen_de_resolver_eq : forall l,
    option_map strip_table (fst (run_deser hash cand growf keycap gen_de_resolver l)) = Some (de_resolver l).
  Proof.
    intros l. unfold run_deser, de_resolver, doc_bytes.
    replace (ds_bytes gen_de_resolver) with BSumOrDefault by reflexivity.
    replace (ds_limit gen_de_resolver) with DLimUsizeMax by reflexivity.
    cbn [bytes_of limit_of]. apply (gen_de_resolver_loop_eq l 0 (rodeo_new _ _)).
  Qed.

  (* no table, no index_unchecked!: nothing to discharge, and the theorem says so *)
  Theorem gen_de_resolver_loop_safe : forall l pos r,
    snd (de_loop hash cand growf keycap (ds_idx gen_de_resolver) (ds_body gen_de_resolver) l pos r).
  Proof.
    induction l as [|s rest IH]; intros pos r; [exact I|].
    cbn [de_loop]. repeat autounfold with arenagen.
    serde_run; cbn.
    all: try match goal with
        | |- context [de_loop ?h ?c ?g ?k ?i ?b ?rs ?p ?d] =>
            let Hn := fresh in
            assert (Hn : snd (de_loop h c g k i b rs p d));
            [ specialize (IH p d); repeat autounfold with arenagen in IH; cbn [ds_idx ds_body dblock fold_right] in IH; apply IH
            | destruct (de_loop h c g k i b rs p d) as [res okr]; cbn [snd] in Hn |- * ]
        end.
    all: repeat match goal with |- _ /\ _ => split | |- True => exact I end.
    all: try assumption.
  Qed.

  Theorem gen_de_resolver_safe : forall l, snd (run_deser hash cand growf keycap gen_de_resolver l).
  Proof.
    intros l. unfold run_deser.
    replace (ds_bytes gen_de_resolver) with BSumOrDefault by reflexivity.
    cbn [bytes_of]. apply gen_de_resolver_loop_safe.
  Qed.
End Proofs.


(* ---------------- Serialize ---------------- *)
Lemma map_snd_combine {A B} (l1 : list A) (l2 : list B) : List.length l1 = List.length l2 -> map snd (combine l1 l2) = l2.
Proof.
  revert l2. induction l1 as [|x l1 IH]; intros [|y l2] H; try reflexivity; try discriminate H.
  cbn. f_equal. apply IH. cbn in H. congruence.
Qed.

Lemma ser_strs_doc strs a o : obj_strs o = Some (strs, a) ->
  ser_strs (SerField "strings") strs a = match obj_pairs o with Some ps => Some (DList (map snd ps)) | None => None end.
Proof.
  intros Ho. unfold ser_strs.
  assert (E : obj_pairs o = match contents strs a with
                            | Some cs => Some (combine (map N.of_nat (seq 0 (List.length cs))) cs) | None => None end).
  { destruct o; cbn in Ho |- *; try discriminate Ho; try (injection Ho as <- <-; reflexivity). }
  rewrite E. destruct (contents strs a) as [cs|]; [|reflexivity]. cbn [option_map].
  rewrite map_snd_combine; [reflexivity|]. rewrite map_length, seq_length. reflexivity.
Qed.

(* `self.strings.serialize(serializer)`: the document the model's step (Ser) hands over -- the strings in key order *)
Theorem gen_ser_rodeo_doc : forall r,
  ser_strs gen_ser_rodeo (rstrs r) (rar r)
  = match obj_pairs (ORodeo r) with Some ps => Some (DList (map snd ps)) | None => None end.
Proof. intros r. unfold gen_ser_rodeo. apply ser_strs_doc; reflexivity. Qed.

Theorem gen_ser_reader_doc : forall r,
  ser_strs gen_ser_reader (rstrs r) (rar r)
  = match obj_pairs (OReader r) with Some ps => Some (DList (map snd ps)) | None => None end.
Proof. intros r. unfold gen_ser_reader. apply ser_strs_doc; reflexivity. Qed.

Theorem gen_ser_resolver_doc : forall strs a,
  ser_strs gen_ser_resolver strs a
  = match obj_pairs (OResolver strs a) with Some ps => Some (DList (map snd ps)) | None => None end.
Proof. intros strs a. unfold gen_ser_resolver. apply ser_strs_doc; reflexivity. Qed.

(* ThreadedRodeo::serialize: the shape `collect self.map into a HashMap, serialise it` is RECOGNISED only (a DMap; the
   order of a HashMap is unspecified and the model fixes key order): no semantic theorem, see REPORT.md *)
Theorem gen_ser_threaded_shape : gen_ser_threaded = SerMapCollected.
Proof. reflexivity. Qed.

Print Assumptions gen_de_rodeo_loop_eq.
Print Assumptions gen_de_rodeo_eq.
Print Assumptions gen_de_rodeo_loop_safe.
Print Assumptions gen_de_rodeo_safe.
Print Assumptions gen_de_reader_loop_eq.
Print Assumptions gen_de_reader_eq.
Print Assumptions gen_de_reader_loop_safe.
Print Assumptions gen_de_reader_safe.
Print Assumptions gen_de_resolver_loop_eq.
Print Assumptions gen_de_resolver_eq.
Print Assumptions gen_de_resolver_loop_safe.
Print Assumptions gen_de_resolver_safe.
Print Assumptions gen_ser_rodeo_doc.
Print Assumptions gen_ser_reader_doc.
Print Assumptions gen_ser_resolver_doc.
Print Assumptions gen_ser_threaded_shape.
Print Assumptions gen_de_threaded_loop_eq.
Print Assumptions gen_de_threaded_eq.
