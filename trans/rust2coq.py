#!/usr/bin/env python3
"""rust2coq.py -- regenerate Gallina definitions from the Rust source text of lasso.

usage: rust2coq.py --repo <lasso checkout> --out <dir> [--only keys|arena|lockfree ...]

  keys      src/keys.rs                                   -> <out>/KeysGen.v      (lower_keys.py)
  arena     src/arenas/bucket.rs, single_threaded.rs      -> <out>/ArenaGen.v     (lower_arena.py)
  lockfree  src/arenas/lockfree.rs                        -> <out>/LockfreeGen.v       (lower_lockfree.py)
            src/arenas/atomic_bucket.rs                   -> <out>/AtomicBucketGen.v   (lower_atomic_bucket.py)
  rodeo     src/rodeo.rs                                  -> <out>/RodeoGen.v          (lower_rodeo.py)
  threaded  src/threaded_rodeo.rs                         -> <out>/ThreadedGen.v       (lower_threaded.py)
  views     src/reader.rs, src/resolver.rs, conversions   -> <out>/ViewsGen.v          (lower_views.py)
  clone     src/rodeo.rs (clone paths)                    -> <out>/CloneGen.v          (lower_clone.py)
  iters     src/util.rs (Iter / Strings) + their callers  -> <out>/ItersGen.v          (lower_iters.py)

  serde     the Serialize / Deserialize impls of rodeo.rs, reader.rs, resolver.rs, threaded_rodeo.rs
                                                          -> <out>/SerdeGen.v          (lower_serde.py)

Every function body is first prepared by astx.py (helpers of the same file inlined, idioms normalised); see there.
Whenever the source leaves the subset the translator understands it prints
    LOST: <file>:<line>: <what>
and exits 1 without writing the output file of that part.  It never guesses.
"""
import argparse, os, sys

sys.path.insert(0, os.path.dirname(os.path.abspath(__file__)))
import rsparse


def do_keys(repo, out):
    import lower_keys
    rel = "src/keys.rs"
    path = os.path.join(repo, rel)
    parser, items = rsparse.parse_file(path)
    res = lower_keys.KeyLowering(parser, items, path).run()
    text = lower_keys.emit_keys(res, path, rel)
    open(os.path.join(out, "KeysGen.v"), "w").write(text)
    print("rust2coq: keys: %d key types -> %s" % (len(res), os.path.join(out, "KeysGen.v")))


def do_arena(repo, out):
    import lower_arena_main
    lower_arena_main.run(repo, out)


def do_lockfree(repo, out):
    import lower_lockfree, lower_atomic_bucket
    lower_lockfree.run(repo, out)
    lower_atomic_bucket.run(repo, out)


def do_rodeo(repo, out):
    import lower_rodeo
    lower_rodeo.run(repo, out)


def do_threaded(repo, out):
    import lower_threaded
    lower_threaded.run(repo, out)


def do_views(repo, out):
    import lower_views
    lower_views.run(repo, out)


def do_clone(repo, out):
    import lower_clone
    lower_clone.run(repo, out)


def do_iters(repo, out):
    import lower_iters
    lower_iters.run(repo, out)


def do_serde(repo, out):
    import lower_serde
    lower_serde.run(repo, out)


PARTS = {"serde": (do_serde, "src/rodeo.rs"), "iters": (do_iters, "src/util.rs"), "clone": (do_clone, "src/rodeo.rs"), "views": (do_views, "src/reader.rs"), "threaded": (do_threaded, "src/threaded_rodeo.rs"), "keys": (do_keys, "src/keys.rs"), "arena": (do_arena, "src/arenas"), "lockfree": (do_lockfree, "src/arenas"),
         "rodeo": (do_rodeo, "src/rodeo.rs")}


def main():
    ap = argparse.ArgumentParser()
    ap.add_argument("--repo", required=True)
    ap.add_argument("--out", required=True)
    ap.add_argument("--only", action="append", choices=sorted(PARTS))
    a = ap.parse_args()
    os.makedirs(a.out, exist_ok=True)
    rc = 0
    for part in (a.only or ["keys", "arena"]):
        fn, where = PARTS[part]
        try:
            fn(a.repo, a.out)
        except rsparse.Lost as e:
            f = getattr(e, "file", None) or os.path.join(a.repo, where)
            print("LOST: %s:%s: %s" % (f, e.line, e.what))
            rc = 1
        except OSError as e:
            print("LOST: %s:0: cannot read: %s" % (os.path.join(a.repo, where), e))
            rc = 1
    sys.exit(rc)


if __name__ == "__main__":
    main()
