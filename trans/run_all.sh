#!/bin/sh
# run_all.sh <repo> <workroot> -- `prop.sh all <repo> <workroot>`: the three chains in parallel
exec "$(dirname "$0")/prop.sh" all "$@"
