#!/usr/bin/env python3
"""lower_clone.py -- the clone paths of src/rodeo.rs -> CloneGen.v (GenIRClone.v).

  clone_strings_into(source, arena, strings, map, hasher) -> LassoResult<()>   must be
        for (idx, s) in source.iter().enumerate() { BODY }   Ok(())
     BODY is lowered with the Rodeo lowering (lower_rodeo.RFn; the five parameters play the roles of the fields, s is "the
     string", the copy returned by store_str(s) may stand for s in hash_one / the lookup, idx is a number);
  Rodeo::try_clone_from(&mut self, source: &Self) and Rodeo::try_clone(&self): each statement must be one of the steps of
     GenIRClone.cstep, in exactly the shape quoted there (any other statement is LOST); they are emitted in SOURCE ORDER and
     the interpreter decides what the order means (a table filled before the hasher is taken over, a reservation before the
     clear, a hasher instance other than the clone made up front, another memory limit: outside the model or an open obligation);
  impl Clone for Rodeo: clone = self.try_clone().expect(".."), clone_from = self.try_clone_from(source).expect("..").
"""
import os
import rsparse, astx
from rsparse import Lost
from lower_arena import Known, strip, names_of, is_path, is_self_field, q
from lower_rodeo import RFn, rpp, eq_closure, rehash_closure, FIELDS


def sf(e, obj, f):
    """<obj>.<f> possibly behind & / &mut"""
    e = strip(e)
    if e[0] == "ref": e = strip(e[3])
    return e[0] == "field" and e[3] == f and is_path(strip(e[2]), obj)


def local(e, name):
    e = strip(e)
    if e[0] == "ref": e = strip(e[3])
    return is_path(e, name)


def failed_alloc_map_err(e):
    """X.map_err(|_| LassoError::new(LassoErrorKind::FailedAllocation))?  ->  X or None"""
    e = strip(e)
    if e[0] != "try": return None
    m = strip(e[2])
    if m[0] == "mcall" and m[3] == "map_err" and len(m[4]) == 1 and m[4][0][0] == "closure" and m[4][0][2] == ["_"]:
        c = strip(m[4][0][3])
        if c[0] == "call" and is_path(c[2], "LassoError", "new") and len(c[3]) == 1 and names_of(strip(c[3][0])) == ["LassoErrorKind", "FailedAllocation"]:
            return strip(m[2])
    return None


def run(repo, out):
    rel = "src/rodeo.rs"
    path = os.path.join(repo, rel)
    known = Known()
    try:
        parser, items = rsparse.parse_file(path)
        st = [i for i in items if i[0] == "struct" and i[3] == "Rodeo"]
        if len(st) != 1 or dict(st[0][4] or []) != FIELDS or len(st[0][4]) != 4:
            raise Lost(st[0][1] if st else 1, "struct Rodeo does not have exactly the fields %s" % FIELDS)
        free = {}; fns = {}; clone_impl = []
        for i in items:
            if i[0] == "fn": free.setdefault(i[3], []).append(i)
            if i[0] == "impl" and i[3]["trait"] is None and i[3]["self"].startswith("Rodeo<"):
                for f in i[4]:
                    if f[0] == "fn": fns.setdefault(f[3], []).append(f)
            if i[0] == "impl" and i[3]["trait"] == "Clone" and i[3]["self"].startswith("Rodeo<"): clone_impl.append(i)

        def unique(tab, name, params, ret):
            c = tab.get(name, [])
            if len(c) != 1: raise Lost(1, "expected exactly one `fn %s`, found %d" % (name, len(c)))
            f = c[0]
            if any(a.startswith("cfg(") for a in f[2]): raise Lost(f[1], "conditionally compiled `fn %s`" % name)
            if [t for _, t in f[4]] != params or f[5] != ret: raise Lost(f[1], "signature of `%s` is not (%s) -> %s" % (name, ", ".join(params), ret))
            return f
        # the two table primitives must have their exact shapes (as in lower_rodeo.run)
        env = {"entry_helper": False, "insert_helper": False, "accessors": set(), "copy_is_string": True, "as_ref_nodes": {}}
        f = unique(free, "get_string_entry_mut", ["&'a mut StringMap<K>", "&[&str]", "u64", "&str"], "RawEntryMut<'a,K,(),()>")
        pm, ps, ph, pt = [p for p, _ in f[4]]
        b = strip(parser.fn_body(f))
        if b[0] == "mcall" and b[3] == "from_hash" and len(b[4]) == 2 and is_path(strip(b[4][0]), ph) and strip(b[2])[0] == "mcall" \
                and strip(b[2])[3] == "raw_entry_mut" and is_path(strip(strip(b[2])[2]), pm) \
                and eq_closure(b[4][1], lambda v: is_path(strip(v), ps), lambda t: is_path(strip(t), pt)):
            env["entry_helper"] = True
        f = unique(free, "insert_string", ["RawVacantEntryMut<K,(),()>", "&[&str]", "&S", "u64", "K"], None)
        pe, ps, phs, ph, pk = [p for p, _ in f[4]]
        bb = parser.fn_body(f)
        if len(bb[2]) == 1 and bb[3] is None and bb[2][0][0] == "expr":
            c = strip(bb[2][0][2])
            if c[0] == "mcall" and c[3] == "insert_with_hasher" and is_path(strip(c[2]), pe) and len(c[4]) == 4 and is_path(strip(c[4][0]), ph) \
                    and is_path(strip(c[4][1]), pk) and rehash_closure(c[4][3], lambda v: is_path(strip(v), ps), lambda h: is_path(strip(h), phs)):
                env["insert_helper"] = True
        if not (env["entry_helper"] and env["insert_helper"]): raise Lost(f[1], "get_string_entry_mut / insert_string do not have the expected shapes")
        KEEP = {(None, "get_string_entry_mut"), (None, "insert_string"), (None, "clone_strings_into"), ("Rodeo", "clear"),
                ("Rodeo", "try_clone"), ("Rodeo", "try_clone_from")}
        keep = lambda ty, name, node: (ty, name) in KEEP

        # ---- clone_strings_into ----
        f = unique(free, "clone_strings_into", ["&[&str]", "&mut Arena", "&mut Vec<&'static str>", "&mut StringMap<K>", "&S"], "LassoResult<()>")
        psrc, par, pst, pmp, phs = [p for p, _ in f[4]]
        body, _ = astx.prepare(parser, items, f, None, keep)
        t = strip(body[3]) if body[3] is not None else None
        if not (len(body[2]) == 1 and body[2][0][0] == "expr" and body[2][0][2][0] == "for" and t is not None and t[0] == "call"
                and is_path(t[2], "Ok") and len(t[3]) == 1 and strip(t[3][0])[0] == "tuple" and not strip(t[3][0])[2]):
            raise Lost(f[1], "clone_strings_into is not `for (idx, s) in source.iter().enumerate() { .. } Ok(())` (a statement in front of the loop is outside the subset)")
        fr = body[2][0][2]
        pat, it = fr[2], strip(fr[3])
        if not (pat[0] == "ptuple" and len(pat[2]) == 2 and all(p[0] == "pbind" and not p[3] for p in pat[2])
                and it[0] == "mcall" and it[3] == "enumerate" and not it[4] and strip(it[2])[0] == "mcall" and strip(it[2])[3] == "iter"
                and not strip(it[2])[4] and is_path(strip(strip(it[2])[2]), psrc)):
            raise Lost(fr[1], "the loop is not `for (idx, s) in source.iter().enumerate()`")
        idx, sname = pat[2][0][2], pat[2][1][2]
        fnl = RFn("res_unit", known, env)
        for p, kd in ((par, "f:arena"), (pst, "f:strings"), (pmp, "f:map"), (phs, "f:hasher")): fnl.sc.bind(p, kd, f[1])
        fnl.sc.push(); fnl.sc.bind(idx, "num", fr[1]); fnl.sc.bind(sname, "str", fr[1])
        stl = fnl.stmts(fr[4], False)
        parts = ["(* %s:%d-%d  fn clone_strings_into: the body of `for (%s, %s) in %s.iter().enumerate()` *)\nDefinition gen_clone_body : rfundef := mkRFun [%s]\n  (%s).\n" % (
            rel, f[1], f[7], idx, sname, psrc, q(idx), rpp(stl, 2, rel))]

        # ---- try_clone_from ----
        f = unique(fns, "try_clone_from", ["&mut self", "&Self"], "LassoResult<()>")
        src = f[4][1][0]
        body, _ = astx.prepare(parser, items, f, "Rodeo", keep)
        steps = []
        for s in body[2]:
            e = strip(s[2]) if s[0] == "expr" else None
            ln = s[1]
            if e is None: raise Lost(ln, "`let` in try_clone_from is outside the subset")
            if e[0] == "mcall" and e[3] == "clear" and not e[4] and is_path(strip(e[2]), "self"):
                steps.append(("KClear", ln)); continue
            if e[0] == "assign" and e[2] == "=" and sf(e[3], "self", "hasher"):
                r = strip(e[4])
                if r[0] == "mcall" and r[3] == "clone" and not r[4] and sf(r[2], src, "hasher"):
                    steps.append(("KSetHasher HSourceClone", ln)); continue
                raise Lost(ln, "self.hasher is assigned something else than %s.hasher.clone()" % src)
            x = failed_alloc_map_err(e)
            if x is not None and x[0] == "mcall" and x[3] == "try_reserve":
                if len(x[4]) == 1 and sf(x[2], "self", "strings") and strip(x[4][0])[0] == "mcall" and strip(x[4][0])[3] == "len" \
                        and sf(strip(x[4][0])[2], src, "strings"):
                    steps.append(("KReserveStrings", ln)); continue
                r = strip(x[2])
                if len(x[4]) == 2 and r[0] == "mcall" and r[3] == "raw_table_mut" and sf(r[2], "self", "map") and x[4][1][0] == "closure":
                    cb = x[4][1][3]
                    inner = cb[2][0][2] if cb[0] == "block" and len(cb[2]) == 1 and cb[3] is None else (cb[3] if cb[0] == "block" and not cb[2] else cb)
                    if strip(inner)[0] == "macro" and strip(inner)[2] == "unreachable":
                        steps.append(("KReserveMap", ln)); continue
                raise Lost(ln, "try_reserve statement outside the subset")
            if e[0] == "try" and strip(e[2])[0] == "call" and is_path(strip(e[2])[2], "clone_strings_into"):
                a = strip(e[2])[3]
                if len(a) == 5 and sf(a[0], src, "strings") and sf(a[1], "self", "arena") and sf(a[2], "self", "strings") \
                        and sf(a[3], "self", "map") and sf(a[4], "self", "hasher"):
                    steps.append(("KFillTarget", ln)); continue
                raise Lost(ln, "clone_strings_into is not called with (&%s.strings, &mut self.arena, &mut self.strings, &mut self.map, &self.hasher)" % src)
            raise Lost(ln, "statement of try_clone_from is outside the subset")
        t = strip(body[3]) if body[3] is not None else None
        if not (t and t[0] == "call" and is_path(t[2], "Ok") and len(t[3]) == 1 and strip(t[3][0])[0] == "tuple"): raise Lost(f[1], "try_clone_from does not end in Ok(())")
        steps.append(("KOkUnit", t[1]))
        parts.append("(* %s:%d-%d  fn try_clone_from *)\nDefinition gen_try_clone_from : list cstep :=\n  [ %s ].\n" % (
            rel, f[1], f[7], ";\n    ".join("(* %s:%d *) %s" % (rel, l, s) for s, l in steps)))

        # ---- try_clone ----
        f = unique(fns, "try_clone", ["&self"], "LassoResult<Self>")
        body, _ = astx.prepare(parser, items, f, "Rodeo", keep)
        steps = []; capv = arenav = None; fresh = None
        for s in body[2]:
            ln = s[1]
            if s[0] == "let" and s[2][0] == "pbind":
                x, e = s[2][2], strip(s[4])
                # let cap = NonZeroUsize::new(self.strings.iter().copied().map(str::len).sum::<usize>()).unwrap_or(Capacity::default().bytes);
                if e[0] == "mcall" and e[3] == "unwrap_or" and len(e[4]) == 1:
                    d = strip(e[4][0]); c = strip(e[2])
                    okd = d[0] == "field" and d[3] == "bytes" and strip(d[2])[0] == "call" and is_path(strip(d[2])[2], "Capacity", "default")
                    okc = c[0] == "call" and is_path(c[2], "NonZeroUsize", "new") and len(c[3]) == 1
                    if okc:
                        m = strip(c[3][0])
                        okc = m[0] == "mcall" and m[3] == "sum" and strip(m[2])[0] == "mcall" and strip(m[2])[3] == "map" \
                            and len(strip(m[2])[4]) == 1 and names_of(strip(strip(m[2])[4][0])) == ["str", "len"] \
                            and strip(strip(m[2])[2])[0] == "mcall" and strip(strip(m[2])[2])[3] == "copied" \
                            and strip(strip(strip(m[2])[2])[2])[0] == "mcall" and strip(strip(strip(m[2])[2])[2])[3] == "iter" \
                            and sf(strip(strip(strip(m[2])[2])[2])[2], "self", "strings")
                    if okd and okc and capv is None:
                        capv = x; steps.append(("KLetCapSumOrDefault", ln)); continue
                # let mut arena = Arena::new(cap, max(self.arena.max_memory_usage, cap.get()))?;
                if e[0] == "try" and strip(e[2])[0] == "call" and is_path(strip(e[2])[2], "Arena", "new") and len(strip(e[2])[3]) == 2 and capv:
                    a0, a1 = strip(e[2])[3]
                    if not is_path(strip(a0), capv): raise Lost(ln, "Arena::new is not given the computed capacity")
                    m = strip(a1)
                    lim = "LimOther"
                    if m[0] == "call" and names_of(m[2])[-1] == "max" and len(m[3]) == 2:
                        l0, l1 = strip(m[3][0]), strip(m[3][1])
                        if l0[0] == "field" and l0[3] == "max_memory_usage" and sf(l0[2], "self", "arena") and l1[0] == "mcall" and l1[3] == "get" \
                                and is_path(strip(l1[2]), capv):
                            lim = "LimMaxSourceLimitCap"
                    arenav = x; steps.append(("KNewArena %s" % lim, ln)); continue
                raise Lost(ln, "`let` of try_clone is outside the subset")
            if s[0] == "let" and s[2][0] == "ptuple" and len(s[2][2]) == 3 and all(p[0] == "pbind" for p in s[2][2]):
                e = strip(s[4])
                if e[0] == "tuple" and len(e[2]) == 3:
                    v, mp, h = [strip(z) for z in e[2]]
                    okv = v[0] == "call" and is_path(v[2], "Vec", "with_capacity")
                    okm = mp[0] == "call" and names_of(mp[2])[-1] == "with_capacity_and_hasher" and len(mp[3]) == 2 and strip(mp[3][1])[0] == "tuple"
                    if okv and okm and h[0] == "mcall" and h[3] == "clone" and not h[4] and sf(h[2], "self", "hasher"):
                        fresh = [p[2] for p in s[2][2]]; steps.append(("KLetFresh HSourceClone", ln)); continue
                raise Lost(ln, "the fresh (strings, map, hasher) triple is outside the subset")
            e = strip(s[2]) if s[0] == "expr" else None
            if e is not None and e[0] == "try" and strip(e[2])[0] == "call" and is_path(strip(e[2])[2], "clone_strings_into") and fresh and arenav:
                a = strip(e[2])[3]
                if len(a) == 5 and sf(a[0], "self", "strings") and local(a[1], arenav) and local(a[2], fresh[0]) and local(a[3], fresh[1]):
                    h = "HSourceClone" if local(a[4], fresh[2]) else ("HSourceItself" if sf(a[4], "self", "hasher") else None)
                    if h: steps.append(("KFillFresh %s" % h, ln)); continue
                raise Lost(ln, "clone_strings_into is not called with (&self.strings, &mut arena, &mut strings, &mut map, &hasher)")
            raise Lost(ln, "statement of try_clone is outside the subset")
        t = strip(body[3]) if body[3] is not None else None
        if not (t and t[0] == "call" and is_path(t[2], "Ok") and len(t[3]) == 1 and strip(t[3][0])[0] == "struct" and fresh and arenav):
            raise Lost(f[1], "try_clone does not end in Ok(Self { .. })")
        lit = dict(strip(t[3][0])[3])
        if set(lit) != set(FIELDS) or not (local(lit["map"], fresh[1]) and local(lit["strings"], fresh[0]) and local(lit["arena"], arenav)):
            raise Lost(t[1], "the clone is not built from the fresh map / strings / arena")
        if not local(lit["hasher"], fresh[2]): raise Lost(t[1], "the clone does not store the hasher cloned up front")
        steps.append(("KBuild HSourceClone", t[1]))
        parts.append("(* %s:%d-%d  fn try_clone *)\nDefinition gen_try_clone : list cstep :=\n  [ %s ].\n" % (
            rel, f[1], f[7], ";\n    ".join("(* %s:%d *) %s" % (rel, l, s) for s, l in steps)))

        # ---- impl Clone ----
        if len(clone_impl) != 1: raise Lost(1, "expected exactly one `impl Clone for Rodeo`")
        cf = {x[3]: x for x in clone_impl[0][4] if x[0] == "fn"}
        ok = set(cf) == {"clone", "clone_from"}
        if ok:
            b1 = strip(parser.fn_body(cf["clone"]))
            ok = b1[0] == "mcall" and b1[3] == "expect" and strip(b1[2])[0] == "mcall" and strip(b1[2])[3] == "try_clone" and is_path(strip(strip(b1[2])[2]), "self")
            b2 = parser.fn_body(cf["clone_from"])
            e2 = strip(b2[2][0][2]) if len(b2[2]) == 1 and b2[3] is None else (strip(b2[3]) if b2[3] is not None and not b2[2] else None)
            sp = cf["clone_from"][4][1][0]
            ok = ok and e2 is not None and e2[0] == "mcall" and e2[3] == "expect" and strip(e2[2])[0] == "mcall" and strip(e2[2])[3] == "try_clone_from" \
                and is_path(strip(strip(e2[2])[2]), "self") and len(strip(e2[2])[4]) == 1 and is_path(strip(strip(e2[2])[4][0]), sp)
        if not ok: raise Lost(clone_impl[0][1], "impl Clone is not clone = self.try_clone().expect(..), clone_from = self.try_clone_from(source).expect(..)")
        parts.append("(* impl Clone for Rodeo: clone = self.try_clone().expect(..); clone_from = self.try_clone_from(source).expect(..)  (checked) *)\n"
                     "Definition gen_clone_wrappers_expect : bool := true.\n")
    except Lost as e:
        if not getattr(e, "file", None): e.file = path
        raise
    hdr = """(* CloneGen.v -- GENERATED by rust2coq.py from %s
   DO NOT EDIT: regenerated on every run.  The loop body of clone_strings_into (IR of GenIRRodeo.v) and the step lists of
   try_clone / try_clone_from (GenIRClone.v), in source order. *)
From Lasso Require Import Base Arena Rodeo.
From LassoGen Require Import GenPrelude GenIR GenIRRodeo GenIRClone.
Open Scope string_scope.
Open Scope N_scope.

""" % path
    tail = "\n#[global] Hint Unfold gen_clone_body gen_try_clone_from gen_try_clone gen_clone_wrappers_expect : arenagen.\n"
    open(os.path.join(out, "CloneGen.v"), "w").write(hdr + "\n".join(parts) + tail)
    print("rust2coq: clone: 4 definitions -> %s" % os.path.join(out, "CloneGen.v"))
