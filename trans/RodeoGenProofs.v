(* RodeoGenProofs.v -- HAND-WRITTEN ONCE (not generated).  The methods of Rodeo<K, S> (src/rodeo.rs), regenerated as IR
   terms (RodeoGen.v) and run by the interpreter of GenIRRodeo.v, ARE the functions of the hand-written model
   Lasso.Rodeo that the differential check compares them with (Rodeo.step: Intern, InternStatic, InternP,
   InternStaticP, Get, Contains, ContainsKey, Resolve, TryResolve, Len, IsEmpty, Clear, SetLimit, CurMem, MaxMem) --
   for ALL interner states and arguments, and for every hasher [hash], probe relation [cand], growth policy [growf]
   and key capacity [keycap].  No hypothesis is needed for the values.  The obligations of the unsafe forms
   (index_unchecked! in the table closures, get_unchecked on the strings vector) hold whenever every key in the table
   indexes the strings vector ([table_keys_ok], a consequence of RodeoInv).  One generic tactic, [gen_rodeo_tac]. *)
From Lasso Require Import Base Arena Rodeo RodeoInv.
From LassoGen Require Import GenPrelude GenIR GenIRRodeo GenTactics GenTacticsRodeo RodeoGen.
Open Scope N_scope.

Definition done_res (p : rodeo * res N) : rresult := RDone (fst p) (RvRes (snd p)).
(* the panicking wrappers: Rodeo.step's out_of_resP *)
Definition done_or_panic (p : rodeo * res N) : rresult :=
  match p with (r', Ok k) => RDone r' (RvKey k) | (r', Err _) => RPanic r' end.

Section Proofs.
  Variable hash : str -> N.
  Variable cand : N -> N -> bool.
  Variable growf : N -> bool.
  Variable keycap : N.
  Notation run := (run_rfun hash cand growf keycap).

  (* ---------------- interning ---------------- *)

  Theorem gen_try_get_or_intern_eq : forall r s,
    fst (run gen_try_get_or_intern r 0 s []) = Some (done_res (intern hash cand growf keycap r s)).
  Proof. unfold done_res. gen_rodeo_tac. Qed.

  Theorem gen_try_get_or_intern_static_eq : forall r addr s,
    fst (run gen_try_get_or_intern_static r addr s []) = Some (done_res (intern_static hash cand growf keycap r addr s)).
  Proof. unfold done_res. gen_rodeo_tac. Qed.

  Theorem gen_get_or_intern_eq : forall r s,
    fst (run gen_get_or_intern r 0 s []) = Some (done_or_panic (intern hash cand growf keycap r s))
    /\ snd (run gen_get_or_intern r 0 s []).
  Proof. unfold done_or_panic. split; gen_rodeo_tac. Qed.

  Theorem gen_get_or_intern_static_eq : forall r addr s,
    fst (run gen_get_or_intern_static r addr s []) = Some (done_or_panic (intern_static hash cand growf keycap r addr s))
    /\ snd (run gen_get_or_intern_static r addr s []).
  Proof. unfold done_or_panic. split; gen_rodeo_tac. Qed.

  (* index_unchecked! inside the equality and re-hash closures: in bounds for every key of the table, before and after *)
  Theorem gen_try_get_or_intern_safe : forall r s, table_keys_ok (rmap r) (rstrs r) ->
    snd (run gen_try_get_or_intern r 0 s []).
  Proof. gen_rodeo_tac. Qed.

  Theorem gen_try_get_or_intern_static_safe : forall r addr s, table_keys_ok (rmap r) (rstrs r) ->
    snd (run gen_try_get_or_intern_static r addr s []).
  Proof. gen_rodeo_tac. Qed.

  (* ---------------- lookups ---------------- *)

  Theorem gen_get_eq : forall r s,
    fst (run gen_get r 0 s []) = Some (RDone r (RvOptKey (r_get hash cand r s))).
  Proof. gen_rodeo_tac. Qed.
  Theorem gen_get_safe : forall r s, table_keys_ok (rmap r) (rstrs r) -> snd (run gen_get r 0 s []).
  Proof. gen_rodeo_tac. Qed.

  Theorem gen_contains_eq : forall r s,
    fst (run gen_contains r 0 s [])
    = Some (RDone r (RvBool (match r_get hash cand r s with Some _ => true | None => false end)))
    /\ snd (run gen_contains r 0 s []).
  Proof. split; gen_rodeo_tac. Qed.

  Theorem gen_contains_key_eq : forall r s k,
    fst (run gen_contains_key r 0 s [k]) = Some (RDone r (RvBool (strs_contains_key (rstrs r) k)))
    /\ snd (run gen_contains_key r 0 s [k]).
  Proof. split; gen_rodeo_tac. Qed.

  (* try_resolve returns the stored reference (GenIRRodeo.strs_resolve_via_ref: reading it is strs_resolve);
     get_unchecked is guarded by the comparison *)
  Theorem gen_try_resolve_eq : forall r s k,
    fst (run gen_try_resolve r 0 s [k]) = Some (RDone r (RvOptRef (strs_resolve_ref (rstrs r) k)))
    /\ snd (run gen_try_resolve r 0 s [k]).
  Proof. split; gen_rodeo_tac. Qed.

  (* resolve panics exactly when try_resolve is None; get_unchecked is guarded by the assert! *)
  Theorem gen_resolve_eq : forall r s k,
    fst (run gen_resolve r 0 s [k])
    = Some (match strs_resolve_ref (rstrs r) k with Some rf => RDone r (RvRef rf) | None => RPanic r end)
    /\ snd (run gen_resolve r 0 s [k]).
  Proof. split; gen_rodeo_tac. Qed.

  (* ---------------- size, clearing, limits ---------------- *)

  Theorem gen_len_eq : forall r s,
    fst (run gen_len r 0 s []) = Some (RDone r (RvNum (r_len r))) /\ snd (run gen_len r 0 s []).
  Proof. split; gen_rodeo_tac. Qed.

  Theorem gen_is_empty_eq : forall r s,
    fst (run gen_is_empty r 0 s []) = Some (RDone r (RvBool (r_len r =? 0))) /\ snd (run gen_is_empty r 0 s []).
  Proof. split; gen_rodeo_tac. Qed.

  Theorem gen_rodeo_clear_eq : forall r s,
    fst (run gen_rodeo_clear r 0 s []) = Some (RDone (r_clear r) RvUnit) /\ snd (run gen_rodeo_clear r 0 s []).
  Proof. split; gen_rodeo_tac. Qed.

  Theorem gen_set_memory_limits_eq : forall r s m,
    fst (run gen_set_memory_limits r 0 s [m]) = Some (RDone (r_set_limit r m) RvUnit)
    /\ snd (run gen_set_memory_limits r 0 s [m]).
  Proof. split; gen_rodeo_tac. Qed.

  Theorem gen_current_memory_usage_eq : forall r s,
    fst (run gen_current_memory_usage r 0 s []) = Some (RDone r (RvNum (usage (rar r))))
    /\ snd (run gen_current_memory_usage r 0 s []).
  Proof. split; gen_rodeo_tac. Qed.

  Theorem gen_max_memory_usage_eq : forall r s,
    fst (run gen_max_memory_usage r 0 s []) = Some (RDone r (RvNum (limit (rar r))))
    /\ snd (run gen_max_memory_usage r 0 s []).
  Proof. split; gen_rodeo_tac. Qed.
End Proofs.

(* the hypothesis of the obligation theorems is part of the interner's invariant (RodeoInv.v) *)
Theorem RodeoInv_table_keys_ok : forall hash keycap r cs,
  RodeoInv hash keycap r cs -> table_keys_ok (rmap r) (rstrs r).
Proof.
  intros hash keycap r cs (_ & (_ & _ & Hc & _) & (_ & Hfiled & _) & _).
  unfold table_keys_ok. apply Forall_forall. intros [h k] Hin. cbn [snd].
  destruct (Hfiled h k Hin) as (s0 & Hn & _).
  assert (N.to_nat k < List.length cs)%nat by (apply nth_error_Some; rewrite Hn; discriminate).
  rewrite (contents_length _ _ _ Hc) in H. lia.
Qed.

Print Assumptions RodeoInv_table_keys_ok.
Print Assumptions gen_try_get_or_intern_eq.
Print Assumptions gen_try_get_or_intern_static_eq.
Print Assumptions gen_get_or_intern_eq.
Print Assumptions gen_get_or_intern_static_eq.
Print Assumptions gen_try_get_or_intern_safe.
Print Assumptions gen_try_get_or_intern_static_safe.
Print Assumptions gen_get_eq.
Print Assumptions gen_get_safe.
Print Assumptions gen_contains_eq.
Print Assumptions gen_contains_key_eq.
Print Assumptions gen_try_resolve_eq.
Print Assumptions gen_resolve_eq.
Print Assumptions gen_len_eq.
Print Assumptions gen_is_empty_eq.
Print Assumptions gen_rodeo_clear_eq.
Print Assumptions gen_set_memory_limits_eq.
Print Assumptions gen_current_memory_usage_eq.
Print Assumptions gen_max_memory_usage_eq.
