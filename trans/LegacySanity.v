(* LegacySanity.v -- HAND-WRITTEN sanity check, NOT part of the deliverable theorems and NOT expected to compile
   against the current source.  It is compiled by sanity_f1.sh against a scratch copy of single_threaded.rs from
   which the F1 repair (`if len > remaining_memory { return Err(..) }`) has been removed.  Against that copy
     * the generated store_str equals the model of the UNREPAIRED code, Arena.vec_store_legacy, for all inputs;
     * the collected obligations are violated on the known F1 witness (capacity 10, limit 15, a 10-byte string
       interned, then an 8-byte string): the 8 bytes are copied into a 5-byte bucket. *)
From Lasso Require Import Base Arena ArenaProofs.
From LassoGen Require Import GenPrelude GenIR GenRequest GenTactics ArenaGen.
Open Scope N_scope.

Theorem legacy_store_str_eq : forall a s, 2 * bucket_cap a <= isize_max -> slen s <= isize_max ->
  as_str_result (fst (run_fun gen_store_str a s [])) = Some (Arena.vec_store_legacy a s).
Proof. gen_arena_tac. Qed.

Definition f1_arena : arena :=
  mkArena [mkBlock 0 10 10 (repeat 1 10)] 10 10 15 1.
Definition f1_string : str := repeat 2 8.

Theorem f1_arena_ok : ArenaInv f1_arena /\ arena_typed f1_arena.
Proof.
  unfold ArenaInv, arena_typed, f1_arena, block_ok, usize_max; cbn.
  repeat split; try discriminate; try lia; repeat constructor; cbn; try lia; try tauto; try reflexivity.
Qed.

Theorem f1_witness_unsafe : ~ snd (run_fun gen_store_str f1_arena f1_string []).
Proof.
  unfold run_fun, f1_arena, f1_string. repeat autounfold with arenagen.
  intros H. vm_compute in H.
  repeat match goal with H : _ /\ _ |- _ => destruct H end.
  (* the violated obligation is push_pre's  0 + 8 <= 5 , i.e. (8 ?= 5) = Gt -> False *)
  match goal with H : Gt = Gt -> False |- _ => exact (H eq_refl) end.
Qed.

Print Assumptions legacy_store_str_eq.
Print Assumptions f1_witness_unsafe.
