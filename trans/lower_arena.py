#!/usr/bin/env python3
"""lower_arena.py -- src/arenas/bucket.rs + single_threaded.rs  ->  ArenaGen.v (terms of the IR in GenIR.v).

The translator recognises exactly the forms listed below and gives them the meaning fixed in GenIR.v.  Anything else
is LOST (exit 1).  It keeps a scoped table of local names with their kind; a `let` that shadows a visible name is LOST
(the IR flattens `unsafe { .. }` blocks, which is only sound without shadowing).

  kinds of names   num (usize)   nz (NonZeroUsize)   str (the &str / &[u8] argument and its `.as_bytes()` aliases)
                   bucket (an owned Bucket)   bucketref (&mut Bucket of `if let Some(b) = ..last_mut()` / the filter closure)
                   ref (&'static str returned by push_slice)   ptr (*mut u8)   rawslice (&mut [u8] from from_raw_parts_mut)
  numbers          literal | num name | NZ.get() | self.memory_usage | self.max_memory_usage | self.index
                   | self.buckets.len() | STR.len() | a + b | a - b | a * b | a.saturating_sub(b) | B.free_elements()
                   | size_of::<u8>() (= 1) | align_of::<u8>() (= 1) | ( e ) | unsafe { e }
  booleans         a < b, <=, >, >=, ==, != | !c | c && d | c || d | STR.is_empty() | self.is_full() | true | false
  NonZeroUsize     [unsafe {] NonZeroUsize::new_unchecked(e) [}] | NonZeroUsize::new(e).ok_or_else(|| LassoError::new(LassoErrorKind::K))?
                   | self.bucket_capacity | self.capacity | nz name
  statements       let x = <number>;            let x = STR.as_bytes();          debug_assert!(c); debug_assert_ne!/eq!(a, b);
                   if c { .. } [else ..]         return <result>;                 self.F = e; self.F += e; self.F -= e;
                   self.bucket_capacity = NZ;    self.allocate_memory(e)?;        let [mut] b = Bucket::with_capacity(NZ)?;
                   let r = [unsafe {] b.push_slice(STR) [}];                      self.buckets.push(b); self.buckets.insert(e, b);
                   if let Some(b) = self.buckets.last_mut()[.filter(|p| c)] { .. } [else { .. }]
                   for b in &mut self.buckets { b.clear(); }
                   let p = self.items.as_ptr().add(e);   let t = slice::from_raw_parts_mut(p, e);   t.copy_from_slice(STR);
                   ptr::copy_nonoverlapping(STR.as_ptr(), p, e);   (= from_raw_parts_mut(p, e).copy_from_slice(STR))
                   let x = <NonZeroUsize value>;
  Before lowering, every function body goes through astx.py: several inherent impl blocks are merged, calls of private helpers of
  the same file are inlined (early returns keep their meaning), a few idioms are normalised (match with a guard on last_mut() =
  .filter(..), `Ok(b.push_slice(..))`, `from_utf8_unchecked(slice::from_raw_parts(p, n))`, ...).
  results          Ok("") | Ok(r) | Ok(()) | Err(LassoError::new(LassoErrorKind::K)) | <number> | <boolean>
                   | core::str::from_utf8_unchecked(t)
"""
import os
import rsparse
from rsparse import Lost

ERRS = ("MemoryLimitReached", "KeySpaceExhaustion", "FailedAllocation")
BUCKET_FIELDS = {"index": "usize", "items": "NonNull<u8>", "capacity": "NonZeroUsize"}
ARENA_FIELDS = {"buckets": "Vec<Bucket>", "bucket_capacity": "NonZeroUsize", "memory_usage": "usize", "max_memory_usage": "usize"}
USIZE_MAX = 2 ** 64 - 1


def names_of(p):
    return [s if isinstance(s, str) else s[0] for s in p[2]]


def is_path(e, *names):
    return e[0] == "path" and names_of(e) == list(names)


def is_self_field(e, f=None):
    return e[0] == "field" and is_path(e[2], "self") and (f is None or e[3] == f)


def strip(e):
    """( e ), { e }, unsafe { e } without statements are e"""
    while True:
        if e[0] == "paren": e = e[2]
        elif e[0] == "block" and not e[2] and e[3] is not None: e = e[3]
        else: return e


def q(s):
    return '"%s"' % s


class Scope:
    def __init__(self):
        self.frames = [{}]

    def push(self): self.frames.append({})
    def pop(self): self.frames.pop()

    def get(self, x):
        for f in reversed(self.frames):
            if x in f: return f[x]
        return None

    def bind(self, x, kind, line):
        if self.get(x) is not None:
            raise Lost(line, "`%s` shadows a visible name (outside the subset)" % x)
        if x == "self": raise Lost(line, "binding of `self`")
        self.frames[-1][x] = kind


class Fn:
    """lowering of one function body; ctx = 'arena' | 'bucket' | 'plain'"""

    def __init__(self, ctx, rkind, known):
        self.ctx, self.rkind, self.known = ctx, rkind, known
        self.sc = Scope()

    def lost(self, e, what):
        raise Lost(e[1] if isinstance(e, tuple) else e, what)

    # ---- numbers ----
    def num(self, e):
        e = strip(e)
        k = e[0]
        if k == "lit":
            if e[3] not in (None, "usize"): self.lost(e, "literal with suffix %s where a usize is expected" % e[3])
            if e[2] > USIZE_MAX: self.lost(e, "literal does not fit usize")
            return "EConst %d" % e[2]
        if k == "path":
            n = names_of(e)
            if len(n) == 1 and self.sc.get(n[0]) == "num": return "EVar %s" % q(n[0])
            if len(n) == 2 and n == ["usize", "MAX"]: return "EConst %d" % USIZE_MAX
            self.lost(e, "`%s` is not a usize value" % "::".join(n))
        if k == "field":
            if self.ctx == "arena" and is_self_field(e, "memory_usage"): return "EField FUsage"
            if self.ctx == "arena" and is_self_field(e, "max_memory_usage"): return "EField FMaxMem"
            if self.ctx == "bucket" and is_self_field(e, "index"): return "EField FIndex"
            self.lost(e, "field `.%s` is not a usize field of self" % e[3])
        if k == "bin" and e[2] in ("+", "-", "*"):
            c = {"+": "EAdd", "-": "ESub", "*": "EMul"}[e[2]]
            return "%s (%s) (%s)" % (c, self.num(e[3]), self.num(e[4]))
        if k == "mcall":
            recv, name, args = e[2], e[3], e[4]
            if name == "get" and not args:
                z = strip(recv)
                if self.ctx == "arena" and is_self_field(z, "bucket_capacity"): return "EField FBucketCap"
                if self.ctx == "bucket" and is_self_field(z, "capacity"): return "EField FCapacity"
                if z[0] == "path" and len(names_of(z)) == 1 and self.sc.get(names_of(z)[0]) == "nz":
                    return "EVar %s" % q(names_of(z)[0])
                self.lost(e, "`.get()` on something that is not a known NonZeroUsize")
            if name == "len" and not args:
                z = strip(recv)
                if self.ctx == "arena" and is_self_field(z, "buckets"): return "EField FBucketsLen"
                if z[0] == "path" and len(names_of(z)) == 1 and self.sc.get(names_of(z)[0]) == "str": return "EStrLen"
                self.lost(e, "`.len()` on something that is neither the string argument nor self.buckets")
            if name == "saturating_sub" and len(args) == 1:
                return "ESatSub (%s) (%s)" % (self.num(recv), self.num(args[0]))
            if name == "free_elements" and not args:
                z = strip(recv)
                if z[0] == "path" and len(names_of(z)) == 1 and self.sc.get(names_of(z)[0]) in ("bucket", "bucketref"):
                    self.known.need("Bucket", "free_elements", e[1])
                    return "EFreeOf %s" % q(names_of(z)[0])
                self.lost(e, "`.free_elements()` on something that is not a bucket variable")
            self.lost(e, "unknown method `.%s(..)` in a usize expression" % name)
        if k == "call" and e[2][0] == "path" and not e[3]:
            segs = e[2][2]
            last = segs[-1]
            if isinstance(last, tuple) and last[0] in ("size_of", "align_of") and last[1] == "u8":
                return "EConst 1"
        self.lost(e, "expression form `%s` is outside the usize subset" % k)

    # ---- booleans ----
    def boolean(self, e):
        e = strip(e)
        k = e[0]
        if k == "path" and names_of(e) in (["true"], ["false"]):
            return "BTrue" if names_of(e) == ["true"] else "BFalse"
        if k == "un" and e[2] == "!":
            return "BNot (%s)" % self.boolean(e[3])
        if k == "bin":
            op = e[2]
            if op in ("&&", "||"):
                return "%s (%s) (%s)" % ("BAnd" if op == "&&" else "BOr", self.boolean(e[3]), self.boolean(e[4]))
            if op in ("<", "<=", ">", ">=", "==", "!="):
                a, b = self.num(e[3]), self.num(e[4])
                return {"<": "BLt (%s) (%s)" % (a, b), ">": "BLt (%s) (%s)" % (b, a), "<=": "BLe (%s) (%s)" % (a, b),
                        ">=": "BLe (%s) (%s)" % (b, a), "==": "BEq (%s) (%s)" % (a, b),
                        "!=": "BNot (BEq (%s) (%s))" % (a, b)}[op]
        if k == "mcall" and not e[4]:
            z = strip(e[2])
            if e[3] == "is_empty" and z[0] == "path" and len(names_of(z)) == 1 and self.sc.get(names_of(z)[0]) == "str":
                return "BStrEmpty"
            if e[3] == "is_full" and self.ctx == "bucket" and is_path(z, "self"):
                self.known.need("Bucket", "is_full", e[1])
                return "BSelfIsFull"
        self.lost(e, "expression form `%s` is outside the boolean subset" % k)

    # ---- NonZeroUsize ----
    def errkind(self, e):
        """LassoError::new(LassoErrorKind::K)"""
        e = strip(e)
        if e[0] == "call" and is_path(e[2], "LassoError", "new") and len(e[3]) == 1:
            a = strip(e[3][0])
            if a[0] == "path" and len(names_of(a)) == 2 and names_of(a)[0] == "LassoErrorKind" and names_of(a)[1] in ERRS:
                return names_of(a)[1]
        self.lost(e, "error value is not `LassoError::new(LassoErrorKind::<K>)`")

    def nz(self, e):
        e = strip(e)
        k = e[0]
        if k == "call" and is_path(e[2], "NonZeroUsize", "new_unchecked") and len(e[3]) == 1:
            return "NZUnchecked (%s)" % self.num(e[3][0])
        if k == "try":
            m = strip(e[2])
            if m[0] == "mcall" and m[3] == "ok_or_else" and len(m[4]) == 1 and m[4][0][0] == "closure" and not m[4][0][2]:
                c = strip(m[2])
                if c[0] == "call" and is_path(c[2], "NonZeroUsize", "new") and len(c[3]) == 1:
                    return "NZNewOrErr (%s) %s" % (self.num(c[3][0]), self.errkind(m[4][0][3]))
            self.lost(e, "`?` on something that is not NonZeroUsize::new(e).ok_or_else(|| LassoError::new(..))")
        if k == "field":
            if self.ctx == "arena" and is_self_field(e, "bucket_capacity"): return "NZField FBucketCap"
            if self.ctx == "bucket" and is_self_field(e, "capacity"): return "NZField FCapacity"
        if k == "path" and len(names_of(e)) == 1 and self.sc.get(names_of(e)[0]) == "nz":
            return "NZVar %s" % q(names_of(e)[0])
        self.lost(e, "expression is not a recognised NonZeroUsize value")

    def var_of(self, e, kinds, what):
        e = strip(e)
        if e[0] == "path" and len(names_of(e)) == 1 and self.sc.get(names_of(e)[0]) in kinds:
            return names_of(e)[0]
        self.lost(e, "expected %s" % what)

    # ---- results ----
    def result(self, e):
        e = strip(e)
        rk = self.rkind
        if rk in ("res_str", "res_unit") and e[0] == "call" and e[2][0] == "path" and len(e[3]) == 1:
            f = names_of(e[2])
            a = strip(e[3][0])
            if f == ["Err"]:
                return "RErr %s" % self.errkind(a)
            if f == ["Ok"] and rk == "res_unit" and a[0] == "tuple" and not a[2]:
                return "RUnit"
            if f == ["Ok"] and rk == "res_str":
                if a[0] == "strlit" and a[2] == "": return "ROkEmptyStr"
                if a[0] == "path" and len(names_of(a)) == 1 and self.sc.get(names_of(a)[0]) == "ref":
                    return "ROkRef %s" % q(names_of(a)[0])
            self.lost(e, "result value outside the subset")
        if rk == "usize": return "RNum (%s)" % self.num(e)
        if rk == "bool": return "RBool (%s)" % self.boolean(e)
        if rk == "str":
            if e[0] == "call" and e[2][0] == "path" and names_of(e[2])[-2:] == ["str", "from_utf8_unchecked"] and len(e[3]) == 1:
                return "RUtf8 %s" % q(self.var_of(e[3][0], ("rawslice",), "a raw slice variable"))
            self.lost(e, "result of push_slice is not core::str::from_utf8_unchecked(<raw slice>)")
        self.lost(e, "result expression is outside the subset (or a value is returned from a function of unit type)")

    # ---- statements ----
    def block(self, b, tail_returns):
        """statements of a block, in a fresh scope.  tail_returns: the block's tail expression is the function's result"""
        self.sc.push()
        out = self.stmts(b, tail_returns)
        self.sc.pop()
        return out

    def stmts(self, b, tail_returns):
        out = []
        for st in b[2]:
            if st[0] == "let":
                out += self.let(st)
            else:
                out += self.expr_stmt(st[2], st[1])
        t = b[3]
        if t is not None:
            if tail_returns:
                out += self.tail(t)
            else:
                out += self.expr_stmt(t, t[1])      # a unit-valued tail (e.g. a nested `if` without value)
        elif tail_returns and self.rkind == "unit":
            pass
        return out

    def tail(self, e):
        k = e[0]
        if k == "paren": return self.tail(e[2])
        if k == "block":
            self.sc.push(); r = self.stmts(e, True); self.sc.pop(); return r
        if k == "if":
            if e[4] is None:
                if self.rkind != "unit": self.lost(e, "`if` without `else` as the value of a non-unit function")
                return [("if", self.boolean(e[2]), self.block(e[3], True), [], e[1])]
            return [("if", self.boolean(e[2]), self.block(e[3], True), self.tail(e[4]), e[1])]
        if k == "iflet":
            return self.iflet(e, True)
        if k == "return":
            return self.expr_stmt(e, e[1])
        if self.rkind == "unit":
            return self.expr_stmt(e, e[1])
        return self.ret_stmts(e)

    def ret_stmts(self, e):
        """`return e` / a tail value e: a few values need a statement in front of the IR's return"""
        e0 = strip(e)
        # Ok(b.push_slice(STR))   =   let r = b.push_slice(STR); Ok(r)
        if self.rkind == "res_str" and e0[0] == "call" and is_path(e0[2], "Ok") and len(e0[3]) == 1 \
                and strip(e0[3][0])[0] == "mcall" and strip(e0[3][0])[3] == "push_slice":
            r = "pushed@%d" % e0[1]
            st = self.let(("let", e0[1], ("pbind", e0[1], r, False), None, e0[3][0]))
            return st + [("s", "SReturn (ROkRef %s)" % q(r), e0[1])]
        # from_utf8_unchecked(slice::from_raw_parts(p, n))   =   let t = from_raw_parts_mut(p, n); from_utf8_unchecked(t)
        if self.rkind == "str" and e0[0] == "call" and e0[2][0] == "path" and names_of(e0[2])[-2:] == ["str", "from_utf8_unchecked"] \
                and len(e0[3]) == 1:
            c = strip(e0[3][0])
            if c[0] == "call" and c[2][0] == "path" and names_of(c[2])[-2:] == ["slice", "from_raw_parts"] and len(c[3]) == 2:
                t = "raw@%d" % e0[1]
                p = self.var_of(c[3][0], ("ptr",), "a pointer variable")
                self.sc.bind(t, "rawslice", e0[1])
                return [("s", "SLetRawSlice %s %s (%s)" % (q(t), q(p), self.num(c[3][1])), e0[1]),
                        ("s", "SReturn (RUtf8 %s)" % q(t), e0[1])]
        return [("s", "SReturn (%s)" % self.result(e), e[1])]

    def let(self, st):
        _, ln, pat, ty, init = st
        if pat[0] != "pbind": self.lost(st, "`let` pattern outside the subset")
        x, mut = pat[2], pat[3]
        e = strip(init)
        # let mut b = Bucket::with_capacity(NZ)?;
        if e[0] == "try" and strip(e[2])[0] == "call" and is_path(strip(e[2])[2], "Bucket", "with_capacity"):
            c = strip(e[2])
            if self.ctx != "arena" or len(c[3]) != 1: self.lost(st, "Bucket::with_capacity call outside the subset")
            if ty not in (None, "Bucket"): self.lost(st, "type annotation `%s`" % ty)
            z = self.nz(c[3][0])
            self.known.need("Bucket", "with_capacity", ln)
            self.sc.bind(x, "bucket", ln)
            return [("s", "SNewBucketQ %s (%s)" % (q(x), z), ln)]
        if mut: self.lost(st, "`let mut` of something that is not a new Bucket")
        # let x = <NonZeroUsize value>;
        if self.ctx == "arena" and ((e[0] == "call" and is_path(e[2], "NonZeroUsize", "new_unchecked")) or
                                    (e[0] == "try" and strip(e[2])[0] == "mcall" and strip(e[2])[3] == "ok_or_else")):
            z = self.nz(e)
            self.sc.bind(x, "nz", ln)
            return [("s", "SLetNZ %s (%s)" % (q(x), z), ln)]
        if e[0] == "mcall":
            recv, name, args = strip(e[2]), e[3], e[4]
            # let r = unsafe { b.push_slice(STR) };
            if name == "push_slice" and len(args) == 1 and self.ctx == "arena":
                bv = self.var_of(recv, ("bucket", "bucketref"), "a bucket variable as receiver of push_slice")
                self.var_of(args[0], ("str",), "the string argument (or its .as_bytes()) as argument of push_slice")
                self.known.need("Bucket", "push_slice", ln)
                self.sc.bind(x, "ref", ln)
                return [("s", "SPushSlice %s %s" % (q(x), q(bv)), ln)]
            # let slice = string.as_bytes();
            if name == "as_bytes" and not args and recv[0] == "path" and len(names_of(recv)) == 1 and self.sc.get(names_of(recv)[0]) == "str":
                self.sc.bind(x, "str", ln)
                return []
            # let p = self.items.as_ptr().add(e);
            if name == "add" and len(args) == 1 and self.ctx == "bucket" and recv[0] == "mcall" and recv[3] == "as_ptr" \
                    and not recv[4] and is_self_field(strip(recv[2]), "items"):
                n = self.num(args[0])
                self.sc.bind(x, "ptr", ln)
                return [("s", "SLetPtrAdd %s (%s)" % (q(x), n), ln)]
        # let t = slice::from_raw_parts_mut(p, e);
        if e[0] == "call" and e[2][0] == "path" and names_of(e[2])[-2:] == ["slice", "from_raw_parts_mut"] and len(e[3]) == 2 \
                and self.ctx == "bucket":
            p = self.var_of(e[3][0], ("ptr",), "a pointer variable")
            n = self.num(e[3][1])
            self.sc.bind(x, "rawslice", ln)
            return [("s", "SLetRawSlice %s %s (%s)" % (q(x), q(p), n), ln)]
        if ty not in (None, "usize"): self.lost(st, "type annotation `%s`" % ty)
        n = self.num(init)
        self.sc.bind(x, "num", ln)
        return [("s", "SLet %s (%s)" % (q(x), n), ln)]

    def expr_stmt(self, e, ln):
        k = e[0]
        if k == "paren": return self.expr_stmt(e[2], ln)
        if k == "block":
            self.sc.push(); r = self.stmts(e, False); self.sc.pop(); return r
        if k == "if":
            els = []
            if e[4] is not None:
                els = self.block(e[4], False) if e[4][0] == "block" else self.expr_stmt(e[4], e[4][1])
            return [("if", self.boolean(e[2]), self.block(e[3], False), els, e[1])]
        if k == "iflet":
            return self.iflet(e, False)
        if k == "return":
            if e[2] is None:
                if self.rkind != "unit": self.lost(e, "`return;` in a non-unit function")
                return [("s", "SReturn RUnit", e[1])]
            return self.ret_stmts(e[2])
        # ptr::copy_nonoverlapping(STR.as_ptr(), p, n)   =   from_raw_parts_mut(p, n).copy_from_slice(STR)
        if k == "call" and e[2][0] == "path" and names_of(e[2])[-1] == "copy_nonoverlapping" and names_of(e[2])[-2:-1] in ([], ["ptr"]) \
                and len(e[3]) == 3 and self.ctx == "bucket":
            src = strip(e[3][0])
            if not (src[0] == "mcall" and src[3] == "as_ptr" and not src[4]): self.lost(e, "copy source is not <bytes>.as_ptr()")
            self.var_of(src[2], ("str",), "the byte slice argument as copy source")
            p = self.var_of(e[3][1], ("ptr",), "a pointer variable as copy destination")
            t = "copy@%d" % e[1]
            self.sc.bind(t, "rawslice", e[1])
            return [("s", "SLetRawSlice %s %s (%s)" % (q(t), q(p), self.num(e[3][2])), e[1]), ("s", "SCopyFromSlice %s" % q(t), e[1])]
        if k == "macro":
            if e[2] == "debug_assert" and len(e[3]) == 1:
                return [("s", "SAssert (%s)" % self.boolean(e[3][0]), e[1])]
            if e[2] in ("debug_assert_ne", "debug_assert_eq") and len(e[3]) == 2:
                c = "BEq (%s) (%s)" % (self.num(e[3][0]), self.num(e[3][1]))
                return [("s", "SAssert (%s)" % (c if e[2].endswith("eq") else "BNot (%s)" % c), e[1])]
            self.lost(e, "macro `%s!` is outside the subset" % e[2])
        if k == "try":
            m = strip(e[2])
            if m[0] == "mcall" and m[3] == "allocate_memory" and is_path(strip(m[2]), "self") and len(m[4]) == 1 and self.ctx == "arena":
                self.known.need("Arena", "allocate_memory", e[1])
                return [("s", "SAllocQ (%s)" % self.num(m[4][0]), e[1])]
            self.lost(e, "`?` statement outside the subset")
        if k == "mcall":
            recv, name, args = strip(e[2]), e[3], e[4]
            if self.ctx == "arena" and is_self_field(recv, "buckets"):
                if name == "push" and len(args) == 1:
                    return [("s", "SVecPush %s" % q(self.var_of(args[0], ("bucket",), "an owned bucket variable")), e[1])]
                if name == "insert" and len(args) == 2:
                    i = self.num(args[0])
                    return [("s", "SVecInsert (%s) %s" % (i, q(self.var_of(args[1], ("bucket",), "an owned bucket variable"))), e[1])]
            if self.ctx == "bucket" and name == "copy_from_slice" and len(args) == 1:
                t = self.var_of(recv, ("rawslice",), "a raw slice variable")
                self.var_of(args[0], ("str",), "the byte slice argument")
                return [("s", "SCopyFromSlice %s" % q(t), e[1])]
            self.lost(e, "method call statement `.%s(..)` is outside the subset" % name)
        if k == "assign":
            op, lhs, rhs = e[2], strip(e[3]), e[4]
            if not is_self_field(lhs): self.lost(e, "assignment to something that is not a field of self")
            f = lhs[3]
            fld = {("arena", "memory_usage"): "FUsage", ("arena", "max_memory_usage"): "FMaxMem", ("bucket", "index"): "FIndex"}.get((self.ctx, f))
            if fld:
                r = self.num(rhs)
                if op == "+=": r = "EAdd (EField %s) (%s)" % (fld, r)
                elif op == "-=": r = "ESub (EField %s) (%s)" % (fld, r)
                elif op == "*=": r = "EMul (EField %s) (%s)" % (fld, r)
                return [("s", "SSetField %s (%s)" % (fld, r), e[1])]
            if self.ctx == "arena" and f == "bucket_capacity" and op == "=":
                return [("s", "SSetFieldNZ FBucketCap (%s)" % self.nz(rhs), e[1])]
            self.lost(e, "assignment to field `%s`" % f)
        if k == "for":
            pat, it, body = e[2], strip(e[3]), e[4]
            if self.ctx == "arena" and pat[0] == "pbind" and it[0] == "ref" and it[2] and is_self_field(strip(it[3]), "buckets") \
                    and len(body[2]) == 1 and body[3] is None and body[2][0][0] == "expr":
                c = strip(body[2][0][2])
                if c[0] == "mcall" and c[3] == "clear" and not c[4] and is_path(strip(c[2]), pat[2]):
                    self.known.need("Bucket", "clear", e[1])
                    return [("s", "SForEachBucketClear", e[1])]
            self.lost(e, "`for` loop other than `for b in &mut self.buckets { b.clear(); }`")
        self.lost(e, "statement form `%s` is outside the subset" % k)

    def iflet(self, e, tail_returns=False):
        _, ln, pat, scrut, then, els = e
        if self.ctx != "arena": self.lost(e, "`if let` outside Arena")
        if not (pat[0] == "ptuplestruct" and is_path(pat[2], "Some") and len(pat[3]) == 1 and pat[3][0][0] == "pbind" and not pat[3][0][3]):
            self.lost(e, "`if let` pattern is not `Some(<name>)`")
        bname = pat[3][0][2]
        s = strip(scrut)
        pname, cond = bname, "BTrue"
        if s[0] == "mcall" and s[3] == "filter" and len(s[4]) == 1 and s[4][0][0] == "closure" and len(s[4][0][2]) == 1:
            pname = s[4][0][2][0]
            self.sc.push(); self.sc.bind(pname, "bucketref", ln)
            cond = self.boolean(s[4][0][3])
            self.sc.pop()
            s = strip(s[2])
        if not (s[0] == "mcall" and s[3] == "last_mut" and not s[4] and is_self_field(strip(s[2]), "buckets")):
            self.lost(e, "`if let` scrutinee is not self.buckets.last_mut()[.filter(|b| ..)]")
        self.sc.push(); self.sc.bind(bname, "bucketref", ln)
        t = self.stmts(then, tail_returns)
        self.sc.pop()
        el = []
        if els is not None:
            if els[0] == "block": el = self.block(els, tail_returns)
            else: el = self.tail(els) if tail_returns else self.expr_stmt(els, els[1])
        return [("iflast", pname, cond, bname, t, el, ln)]


def pp(stmts, ind, rel):
    """pretty-print a statement list as `block_of_list [ .. ]`"""
    pad = " " * ind
    if not stmts: return "SSkip"
    items = []
    for s in stmts:
        if s[0] == "s":
            items.append("%s  (* %s:%d *) %s" % (pad, rel, s[2], s[1]))
        elif s[0] == "if":
            items.append("%s  (* %s:%d *) SIf (%s)\n%s    (%s)\n%s    (%s)" % (pad, rel, s[4], s[1], pad, pp(s[2], ind + 4, rel), pad, pp(s[3], ind + 4, rel)))
        else:
            items.append("%s  (* %s:%d *) SIfLastFilter %s (%s) %s\n%s    (%s)\n%s    (%s)" % (
                pad, rel, s[6], q(s[1]), s[2], q(s[3]), pad, pp(s[4], ind + 4, rel), pad, pp(s[5], ind + 4, rel)))
    return "block_of_list [\n" + ";\n".join(items) + " ]"


class Known:
    """callees that the IR replaces by their specification: they must exist (once, unconditionally) with the
    expected signature, and their own bodies are translated and proved against the same specification"""

    def __init__(self): self.needs = []
    def need(self, ty, fn, line): self.needs.append((ty, fn, line))


class Unit:
    """one source file: struct + inherent impl of one type"""

    def __init__(self, repo, rel, tyname, fields):
        self.rel, self.path, self.ty = rel, os.path.join(repo, rel), tyname
        try:
            self.parser, self.items = rsparse.parse_file(self.path)
        except Lost as e:
            e.file = self.path; raise
        structs = [i for i in self.items if i[0] == "struct" and i[3] == tyname]
        if len(structs) != 1: self.lost(1, "expected exactly one `struct %s`" % tyname)
        st = structs[0]
        if any(a.startswith("cfg") for a in st[2]): self.lost(st[1], "conditionally compiled struct")
        got = dict(st[4] or [])
        if got != fields or len(st[4]) != len(fields):
            self.lost(st[1], "struct %s does not have exactly the fields %s (found %s)" % (tyname, fields, got))
        impls = [i for i in self.items if i[0] == "impl" and i[3]["trait"] is None and i[3]["self"] == tyname]
        if not impls: self.lost(st[1], "no inherent `impl %s`" % tyname)
        self.fns = {}
        for im in impls:                      # several inherent impl blocks of one type are merged
            if im[3]["generics"] or im[3]["where"] or any(a.startswith("cfg") for a in im[2]):
                self.lost(im[1], "generic or conditional `impl %s`" % tyname)
            for it in im[4]:
                if it[0] != "fn": continue
                self.fns.setdefault(it[3], []).append(it)
        self.keep = lambda ty, name, node: False
        self.inlined = set()
        # a second definition of the type's methods anywhere else in the file would escape us
        for i in self.items:
            if i[0] == "skipped" and i[3] == "macro":
                for k in range(len(i[4]) - 1):
                    if i[4][k].text == "impl" and i[4][k + 1].text == tyname:
                        self.lost(i[1], "`impl %s` inside a macro" % tyname)

    def lost(self, line, what):
        e = Lost(line, what); e.file = self.path; raise e

    def fn(self, name, params, ret, quals=()):
        """the unique unconditional fn `name` with exactly this signature"""
        c = self.fns.get(name, [])
        if len(c) != 1: self.lost(1, "expected exactly one `fn %s` in `impl %s`, found %d" % (name, self.ty, len(c)))
        f = c[0]
        for a in f[2]:
            if a.startswith("cfg(") or (a.startswith("cfg_attr") and "inline" not in a):
                self.lost(f[1], "conditionally compiled `fn %s` (#[%s])" % (name, a))
        got = [(p if p == "self" else "_", t) for p, t in f[4]]
        want = [(p if p == "self" else "_", t) for p, t in params]
        if got != want or f[5] != ret:
            self.lost(f[1], "signature of `%s::%s` is not (%s) -> %s" % (self.ty, name, ", ".join(t for _, t in params), ret))
        if [x for x in f[8] if x not in ("const",)] != list(quals):
            self.lost(f[1], "qualifiers of `%s::%s` are %s, expected %s" % (self.ty, name, f[8], list(quals)))
        return f

    def lower_fn(self, f, ctx, rkind, known, kinds):
        """kinds: kind of each non-self parameter, in order.  Returns (param names of kind num/nz, stmt list)"""
        fnl = Fn(ctx, rkind, known)
        params = []
        try:
            for (p, _t), kd in zip([x for x in f[4] if x[0] != "self"], kinds):
                fnl.sc.bind(p, kd, f[1])
                if kd in ("num", "nz"): params.append(p)
            body = self.body(f)
            out = fnl.stmts(body, True)
            if rkind == "unit": out.append(("s", "SReturn RUnit", f[7]))
        except Lost as e:
            e.file = self.path; raise
        return params, out, fnl

    def body(self, f):
        """the function's body with the private helpers of the file inlined and the idioms normalised (astx.py)"""
        import astx
        b, inl = astx.prepare(self.parser, self.items, f, self.ty, self.keep)
        self.inlined |= set(inl)
        return b

    def emit_fun(self, name, f, params, stmts):
        return "(* %s:%d-%d  fn %s *)\nDefinition %s : fundef := mkFun [%s]\n  (%s).\n" % (
            self.rel, f[1], f[7], f[3], name, "; ".join(q(p) for p in params), pp(stmts, 2, self.rel))
