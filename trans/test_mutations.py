#!/usr/bin/env python3
"""test_mutations.py keys|arena|lockfree [--root /tmp/trans-test] [--only NAME ...]
Make scratch copies of the Rust sources with one edit each, run the translator + proofs on every copy, and print a
table   edit | expected | translator outcome | proof outcome | verdict.   Exit 0 iff every row is as expected.
Expectations:  'fail' = translator succeeds and at least one theorem FAILS (a behaviour change must be noticed);
               'pass' = translator succeeds and all theorems pass (a harmless rewrite must not raise an alarm);
               'lost' = translator prints LOST and exits 1 (outside the subset must never be guessed)."""
import os, shutil, subprocess, sys, time

HERE = os.path.dirname(os.path.abspath(__file__))
REPO = os.environ.get("LASSO_REPO", "/repo")


from mutation_tables import SUITES   # noqa: E402


def run_one(suite, name, edits, root):
    cfg = SUITES[suite]
    d = os.path.join(root, suite, name)
    shutil.rmtree(d, ignore_errors=True)
    for rel in cfg["files"]:
        os.makedirs(os.path.dirname(os.path.join(d, "repo", rel)), exist_ok=True)
        shutil.copy(os.path.join(REPO, rel), os.path.join(d, "repo", rel))
    for rel, fn in edits:
        p = os.path.join(d, "repo", rel)
        t = open(p).read(); t2 = fn(t)
        if t2 == t: raise SystemExit("%s: edit changed nothing" % name)
        open(p, "w").write(t2)
    t0 = time.time()
    r = subprocess.run([os.path.join(HERE, cfg["runner"]), os.path.join(d, "repo"), os.path.join(d, "work")],
                       stdout=subprocess.PIPE, stderr=subprocess.STDOUT, universal_newlines=True)
    open(os.path.join(d, "log.txt"), "w").write(r.stdout)
    lost = [l for l in r.stdout.splitlines() if (l.startswith("LOST:") or l.startswith("LOST "))]
    failed = [l.split()[1] for l in r.stdout.splitlines() if l.startswith("FAILED ") or l.startswith("OPEN-ASSUMPTIONS ")]
    proved = [l.split()[1] for l in r.stdout.splitlines() if l.startswith("PROVED ")]
    if lost:
        tr, pr, got = "LOST: " + lost[0].split(": ", 1)[-1][:70], "-", "lost"
    elif r.returncode == 0:
        tr, pr, got = "ok", "all %d proved" % len(proved), "pass"
    elif failed:
        tr, pr, got = "ok", "FAILED " + ",".join(failed), "fail"
    else:
        tr, pr, got = "?", "runner error (see log.txt)", "error"
    return tr, pr, got, time.time() - t0


def main():
    args = sys.argv[1:]
    if not args or args[0] not in SUITES: raise SystemExit(__doc__)
    suite = args[0]; root = "/tmp/trans-test"; only = []
    i = 1
    while i < len(args):
        if args[i] == "--root": root = args[i + 1]; i += 2
        elif args[i] == "--only": only.append(args[i + 1]); i += 2
        else: raise SystemExit(__doc__)
    bad = 0; rows = []
    for name, descr, expect, edits in SUITES[suite]["mutations"]:
        if only and name not in only: continue
        tr, pr, got, dt = run_one(suite, name, edits, root)
        verdict = "as expected" if got == expect else "UNEXPECTED (wanted %s)" % expect
        if got != expect: bad += 1
        rows.append((name, descr, expect, tr, pr, verdict, dt))
        print("| %s | %s | %s | %s | %s | %s | %.0fs |" % rows[-1]); sys.stdout.flush()
    print("%d rows, %d unexpected" % (len(rows), bad))
    sys.exit(1 if bad else 0)


if __name__ == "__main__":
    main()
