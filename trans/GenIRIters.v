(* GenIRIters.v -- HAND-WRITTEN ONCE (not generated).  The tiny IR of the iterator code of src/util.rs (struct Iter /
   struct Strings, their constructors, iter_element, the Iterator / DoubleEndedIterator / ExactSizeIterator impls) and its
   STD SEMANTICS, written from the documentation (and the source) of core::slice::Iter and core::iter::Enumerate --
   independent of the model Lasso.Rodeo (nothing of Lasso is imported here).

   slice::Iter over l : list A     a window [lo, hi) of positions still to be yielded
     next         lo < hi: yields &l[lo], lo += 1;                  else None
     next_back    lo < hi: hi -= 1, yields &l[hi];                  else None
     nth_back n   n < hi - lo: hi -= n + 1, yields &l[hi];          else the iterator is exhausted (hi := lo) and None
     size_hint    (hi - lo, Some (hi - lo))            len = hi - lo
   Enumerate<I> { iter : I, count }
     next         let a = iter.next()?;       let i = count; count += 1; Some((i, a))
     next_back    let a = iter.next_back()?;  let len = iter.len();      Some((count + len, a))
     nth_back n   let a = iter.nth_back(n)?;  let len = iter.len();      Some((count + len, a))
     size_hint    iter.size_hint()                     len = iter.len()
   ExactSizeIterator::len (default)   let (lower, upper) = self.size_hint(); assert_eq!(upper, Some(lower)); lower
     -- `self.size_hint()` is the size_hint OF THE TYPE THE IMPL IS FOR (here: the method table entry "size_hint", or
        Iterator's default (0, None) when the table has none), not the field's.
   Option::map f / Option::copied      on the result of the std call.
   Values: YRef a = a reference to a slot holding a (`&T`), YVal a = the value itself (`T`, after `*` / `.copied()`);
   a term applied to a value of the wrong shape is STUCK (rustc would have rejected it), never silently accepted. *)
From Coq Require Import List NArith Bool String Lia ZifyBool ZifyN.
Import ListNotations.
Open Scope N_scope.
Arguments N.add : simpl never.
Arguments N.sub : simpl never.
Arguments N.mul : simpl never.
Arguments N.ltb : simpl never.
Arguments N.leb : simpl never.
Arguments N.eqb : simpl never.

(* ---------------- the IR ---------------- *)
Inductive source := SliceIter | Enumerate (s : source).                 (* how the field `iter` is built / typed *)
Inductive arg := AParam | AAddLit (a : arg) (k : N) | ALit (k : N).     (* argument of nth_back: the parameter n, e + lit, lit *)
Inductive call :=                                                       (* the std method called on `self.iter` *)
  | CNext | CNextBack | CNthBack (a : arg) | CSizeHint
  | CNth (a : arg)                                                      (* self.iter.nth(a) *)
  | CFieldLen                                                           (* self.iter.len(): the remaining length of the field *)
  | CConstHint (lo : N) (hi : option N)                                 (* a literal tuple `(lo, None | Some(hi))` *)
  | CLenDefault.                                                        (* no body: ExactSizeIterator's default `len` *)
Inductive eterm :=                                                      (* body of iter_element over its tuple parameter *)
  | EFst | ESnd                                                         (* the two components of the parameter *)
  | EDeref (e : eterm)                                                  (* *e *)
  | EAddLit (e : eterm) (k : N)                                         (* e + lit *)
  | EKeyOrUnreachable (e : eterm)                                       (* K::try_from_usize(e).unwrap_or_else(|| unreachable!()) *)
  | EMatchKey (e body : eterm)                                          (* match K::try_from_usize(e) { Some(k) => body, None => unreachable!() } *)
  | EKeyVar                                                             (* the k bound by the enclosing EMatchKey *)
  | EPair (e1 e2 : eterm).
Inductive post := PNone | PMapIterElement | PCopied.                    (* nothing / .map(iter_element) / .copied() *)
Definition method := (string * (call * post))%type.
Inductive fwd := FwdCtor (ty ctor : string) | FwdSelf (m : string).     (* `Ty::ctor(self)` / `self.m()` *)

(* ---------------- std semantics ---------------- *)
Inductive yv (A : Type) := YRef (a : A) | YVal (a : A) | YNum (n : N) | YKey (k : N) | YPair (x y : yv A).
Arguments YRef {A} a. Arguments YVal {A} a. Arguments YNum {A} n. Arguments YKey {A} k. Arguments YPair {A} x y.
Inductive ev (A : Type) := EvOk (v : yv A) | EvPanic | EvStuck.
Arguments EvOk {A} v. Arguments EvPanic {A}. Arguments EvStuck {A}.
Inductive result (A : Type) :=
  | ROpt (o : option (yv A)) | RHint (lo : N) (hi : option N) | RLen (n : N) | RPanic | RStuck.
Arguments ROpt {A} o. Arguments RHint {A} lo hi. Arguments RLen {A} n. Arguments RPanic {A}. Arguments RStuck {A}.

Inductive state := StSlice (lo hi : N) | StEnum (inner : state) (count : N).

Fixpoint init_state (s : source) (len : N) : state :=
  match s with SliceIter => StSlice 0 len | Enumerate s' => StEnum (init_state s' len) 0 end.
(* the state of an iterator built as [s] after the window shrank to [lo, hi): every `next` moved lo and count together *)
Fixpoint state_at (s : source) (lo hi : N) : state :=
  match s with SliceIter => StSlice lo hi | Enumerate s' => StEnum (state_at s' lo hi) lo end.

Fixpoint len_of (st : state) : N :=
  match st with StSlice lo hi => hi - lo | StEnum i _ => len_of i end.
Fixpoint window_of (st : state) : N * N :=
  match st with StSlice lo hi => (lo, hi) | StEnum i _ => window_of i end.
(* same window, and the same state altogether unless the window is empty (Enumerate::nth leaves `count` alone when the inner
   iterator is exhausted by it: `let a = self.iter.nth(n)?;` -- an exhausted window never yields, so count is dead then) *)
Definition st_agree (s1 s2 : state) : Prop :=
  window_of s1 = window_of s2 /\ (fst (window_of s1) <? snd (window_of s1) = true -> s1 = s2).
Fixpoint hint_of (st : state) : N * option N :=
  match st with StSlice lo hi => (hi - lo, Some (hi - lo)) | StEnum i _ => hint_of i end.

Section Std.
  Context {A : Type}.
  Variable l : list A.                       (* the slice *)
  Variable try_key : N -> option N.          (* K::try_from_usize at the level of indices *)

  (* None = stuck (a position outside the slice: not a reachable state) *)
  Fixpoint raw_next (st : state) : option (state * option (yv A)) :=
    match st with
    | StSlice lo hi =>
        if lo <? hi then match nth_error l (N.to_nat lo) with
                         | Some a => Some (StSlice (lo + 1) hi, Some (YRef a)) | None => None end
        else Some (StSlice lo hi, None)
    | StEnum i c =>
        match raw_next i with
        | Some (i', Some x) => Some (StEnum i' (c + 1), Some (YPair (YNum c) x))
        | Some (i', None) => Some (StEnum i' c, None)
        | None => None
        end
    end.

  Fixpoint raw_next_back (st : state) : option (state * option (yv A)) :=
    match st with
    | StSlice lo hi =>
        if lo <? hi then match nth_error l (N.to_nat (hi - 1)) with
                         | Some a => Some (StSlice lo (hi - 1), Some (YRef a)) | None => None end
        else Some (StSlice lo hi, None)
    | StEnum i c =>
        match raw_next_back i with
        | Some (i', Some x) => Some (StEnum i' c, Some (YPair (YNum (c + len_of i')) x))
        | Some (i', None) => Some (StEnum i' c, None)
        | None => None
        end
    end.

  Fixpoint raw_nth_back (n : N) (st : state) : option (state * option (yv A)) :=
    match st with
    | StSlice lo hi =>
        if n <? hi - lo then match nth_error l (N.to_nat (hi - n - 1)) with
                             | Some a => Some (StSlice lo (hi - n - 1), Some (YRef a)) | None => None end
        else Some (StSlice lo lo, None)
    | StEnum i c =>
        match raw_nth_back n i with
        | Some (i', Some x) => Some (StEnum i' c, Some (YPair (YNum (c + len_of i')) x))
        | Some (i', None) => Some (StEnum i' c, None)
        | None => None
        end
    end.

  (* slice::Iter::nth(n): n < len: yields &l[lo+n], lo := lo+n+1; else None and the iterator is exhausted (lo := hi).
     Enumerate::nth(n): let a = self.iter.nth(n)?; let i = self.count + n; self.count = i + 1; Some((i, a)) *)
  Fixpoint raw_nth (n : N) (st : state) : option (state * option (yv A)) :=
    match st with
    | StSlice lo hi =>
        if n <? hi - lo then match nth_error l (N.to_nat (lo + n)) with
                             | Some a => Some (StSlice (lo + n + 1) hi, Some (YRef a)) | None => None end
        else Some (StSlice hi hi, None)
    | StEnum i c =>
        match raw_nth n i with
        | Some (i', Some x) => Some (StEnum i' (c + n + 1), Some (YPair (YNum (c + n)) x))
        | Some (i', None) => Some (StEnum i' c, None)
        | None => None
        end
    end.

  Fixpoint eval_arg (a : arg) (n : N) : N :=
    match a with AParam => n | AAddLit a' k => eval_arg a' n + k | ALit k => k end.

  (* iter_element applied to [v] *)
  Fixpoint eval (e : eterm) (v : yv A) (kenv : option N) : ev A :=
    match e with
    | EMatchKey e' body => match eval e' v kenv with
                           | EvOk (YNum n) => match try_key n with Some k => eval body v (Some k) | None => EvPanic end
                           | EvOk _ => EvStuck | r => r end
    | EKeyVar => match kenv with Some k => EvOk (YKey k) | None => EvStuck end
    | EFst => match v with YPair x _ => EvOk x | _ => EvStuck end
    | ESnd => match v with YPair _ y => EvOk y | _ => EvStuck end
    | EDeref e' => match eval e' v kenv with
                   | EvOk (YRef a) => EvOk (YVal a)
                   | EvOk _ => EvStuck | r => r end
    | EAddLit e' k => match eval e' v kenv with
                      | EvOk (YNum n) => EvOk (YNum (n + k))
                      | EvOk _ => EvStuck | r => r end
    | EKeyOrUnreachable e' => match eval e' v kenv with
                              | EvOk (YNum n) => match try_key n with Some k => EvOk (YKey k) | None => EvPanic end
                              | EvOk _ => EvStuck | r => r end
    | EPair e1 e2 => match eval e1 v kenv with
                     | EvOk x => match eval e2 v kenv with EvOk y => EvOk (YPair x y) | r => r end
                     | r => r end
    end.

  Definition apply_post (elem : eterm) (p : post) (o : option (yv A)) : result A :=
    match p, o with
    | PNone, _ => ROpt o
    | _, None => ROpt None
    | PMapIterElement, Some v => match eval elem v None with EvOk w => ROpt (Some w) | EvPanic => RPanic | EvStuck => RStuck end
    | PCopied, Some (YRef a) => ROpt (Some (YVal a))
    | PCopied, Some _ => RStuck
    end.

  Definition fin (elem : eterm) (p : post) (st : state) (r : option (state * option (yv A))) : state * result A :=
    match r with Some (st', o) => (st', apply_post elem p o) | None => (st, RStuck) end.

  (* every call but the default len *)
  Definition run_basic (elem : eterm) (st : state) (c : call) (p : post) (n : N) : state * result A :=
    match c with
    | CNext => fin elem p st (raw_next st)
    | CNextBack => fin elem p st (raw_next_back st)
    | CNthBack a => fin elem p st (raw_nth_back (eval_arg a n) st)
    | CNth a => fin elem p st (raw_nth (eval_arg a n) st)
    | CFieldLen => match p with PNone => (st, RLen (len_of st)) | _ => (st, RStuck) end
    | CSizeHint => match p with PNone => (st, RHint (fst (hint_of st)) (snd (hint_of st))) | _ => (st, RStuck) end
    | CConstHint lo hi => match p with PNone => (st, RHint lo hi) | _ => (st, RStuck) end
    | CLenDefault => (st, RStuck)
    end.

  Fixpoint find_method (name : string) (tbl : list method) : option (call * post) :=
    match tbl with
    | [] => None
    | (m, cp) :: t => if String.eqb m name then Some cp else find_method name t
    end.

  Definition run_method (elem : eterm) (tbl : list method) (st : state) (m : call * post) (n : N) : state * result A :=
    match m with
    | (CLenDefault, PNone) =>
        let h := match find_method "size_hint" tbl with
                 | Some (c, p) => snd (run_basic elem st c p 0)
                 | None => RHint 0 None                        (* Iterator::size_hint's default *)
                 end in
        match h with
        | RHint lower (Some upper) => if upper =? lower then (st, RLen lower) else (st, RPanic)
        | RHint _ None => (st, RPanic)                         (* assert_eq!(upper, Some(lower)) *)
        | _ => (st, RStuck)
        end
    | (CLenDefault, _) => (st, RStuck)
    | (c, p) => run_basic elem st c p n
    end.

  (* a method of the table, by name *)
  Definition run_named (elem : eterm) (tbl : list method) (st : state) (name : string) (n : N) : state * result A :=
    match find_method name tbl with
    | Some m => run_method elem tbl st m n
    | None => (st, RStuck)
    end.
End Std.

(* ---------------- the STD DEFAULTS of Iterator::nth / count / last, from the type's own `next` ----------------
   nth(n)   self.advance_by(n).ok()?; self.next()      advance_by: n calls of next(), stopping at the first None
   count    self.fold(0, |c, _| c + 1)                  next() until None
   last     self.fold(None, |_, x| Some(x))             next() until None
   [fuel] bounds the number of calls (the iterators here are finite: fuel = remaining length + 1 suffices; running out is STUCK).
   A panic (or a stuck step) of next propagates. *)
Section Defaults.
  Context {A : Type}.
  Variable nxt : state -> state * result A.

  Fixpoint default_nth (k : nat) (st : state) : state * result A :=
    match k with
    | O => nxt st
    | S k' => match nxt st with
              | (st', ROpt (Some _)) => default_nth k' st'
              | r => r
              end
    end.

  Fixpoint default_count (fuel : nat) (st : state) (acc : N) : result A :=
    match fuel with
    | O => RStuck
    | S f => match nxt st with
             | (st', ROpt (Some _)) => default_count f st' (acc + 1)
             | (_, ROpt None) => RLen acc
             | (_, r) => r
             end
    end.

  Fixpoint default_last (fuel : nat) (st : state) (acc : option (yv A)) : result A :=
    match fuel with
    | O => RStuck
    | S f => match nxt st with
             | (st', ROpt (Some x)) => default_last f st' (Some x)
             | (_, ROpt None) => ROpt acc
             | (_, r) => r
             end
    end.
End Defaults.
