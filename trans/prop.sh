#!/bin/sh
# prop.sh <keys|arena|lockfree|rodeo|threaded|views|clone|iters|serde|findings|all> <repo> <workdir>
#   Regenerate the Gallina definitions from the Rust source text of <repo> and check the hand-written theorems
#   ("generated = model, for all inputs" and "every collected obligation holds") against them, in <workdir>
#   (created; the hand-written files are COPIED there; nothing is written next to this script or into the Coq dir).
#   Output: one line per theorem `PROVED name` / `FAILED name (..)`, and `LOST <file>:<line>: <what>` when the translator
#   loses track of the source.
#   Exit: 0 all theorems proved and closed under the global context
#         1 some theorem failed (model and code differ, or an obligation is open)      [wins over 3 when both occur]
#         3 the translator lost track (source outside the recognised subset)
#         2 usage / infrastructure error (hand-written prerequisite does not compile, Coq dir unusable)
#   Environment: VERIF_COQ_DIR (default /verif/coq): the compiled model, logical root Lasso.   PROP_JOBS (default 8).
#   `all` runs keys, arena, lockfree, rodeo, threaded, views, clone and iters in parallel in <workdir>/<chain>.  `findings` (informational) checks
#   ArenaFindings.v on top of the arena chain.
set -u
HERE=$(cd "$(dirname "$0")" && pwd)
WHAT=${1:?usage: prop.sh <keys|arena|lockfree|rodeo|threaded|views|clone|iters|serde|findings|all> <repo> <workdir>}
REPO=${2:?usage: prop.sh <keys|arena|lockfree|rodeo|threaded|views|clone|iters|serde|findings|all> <repo> <workdir>}
WORK=${3:?usage: prop.sh <keys|arena|lockfree|rodeo|threaded|views|clone|iters|serde|findings|all> <repo> <workdir>}
VERIF_COQ_DIR=${VERIF_COQ_DIR:-/verif/coq}; export VERIF_COQ_DIR
[ -f "$VERIF_COQ_DIR/Arena.vo" ] || { echo "prop: no compiled model in $VERIF_COQ_DIR"; exit 2; }

chain() {  # chain <name> <workdir>
  name=$1; W=$2
  case $name in
    keys)     HAND="GenPrelude KeysGenProofs"; PRE="GenPrelude KeysGen"; PROOFS="KeysGenProofs" ;;
    arena)    HAND="GenPrelude GenIR GenRequest GenTactics ArenaGenProofs"
              PRE="GenPrelude GenIR GenRequest GenTactics ArenaGen"; PROOFS="ArenaGenProofs" ;;
    findings) HAND="GenPrelude GenIR GenRequest GenTactics ArenaFindings"
              PRE="GenPrelude GenIR GenRequest GenTactics ArenaGen"; PROOFS="ArenaFindings" ;;
    lockfree) HAND="GenPrelude GenIR GenRequest GenTactics GenIRLf GenTacticsLf GenIRAb LockfreeGenProofs AtomicBucketGenProofs"
              PRE="GenPrelude GenIR GenRequest GenTactics GenIRLf GenTacticsLf GenIRAb LockfreeGen AtomicBucketGen"
              PROOFS="LockfreeGenProofs AtomicBucketGenProofs" ;;
    rodeo)    HAND="GenPrelude GenIR GenRequest GenTactics GenIRRodeo GenTacticsRodeo RodeoGenProofs"
              PRE="GenPrelude GenIR GenRequest GenTactics GenIRRodeo GenTacticsRodeo RodeoGen"; PROOFS="RodeoGenProofs" ;;
    threaded) HAND="GenPrelude GenIR GenRequest GenTactics GenIRRodeo GenIRThreaded ThreadedGenProofs"
              PRE="GenPrelude GenIR GenRequest GenTactics GenIRRodeo GenIRThreaded ThreadedGen"; PROOFS="ThreadedGenProofs" ;;
    views)    HAND="GenPrelude GenIR GenRequest GenTactics GenIRRodeo GenTacticsRodeo ViewsGenProofs"
              PRE="GenPrelude GenIR GenRequest GenTactics GenIRRodeo GenTacticsRodeo ViewsGen"; PROOFS="ViewsGenProofs" ;;
    clone)    HAND="GenPrelude GenIR GenRequest GenTactics GenIRRodeo GenTacticsRodeo GenIRClone CloneGenProofs"
              PRE="GenPrelude GenIR GenRequest GenTactics GenIRRodeo GenTacticsRodeo GenIRClone CloneGen"; PROOFS="CloneGenProofs" ;;
    iters)    HAND="GenIRIters ItersGenProofs"; PRE="GenIRIters ItersGen"; PROOFS="ItersGenProofs" ;;
    serde)    HAND="GenPrelude GenIR GenRequest GenTactics GenIRRodeo GenTacticsRodeo GenIRSerde SerdeGenProofs"
              PRE="GenPrelude GenIR GenRequest GenTactics GenIRRodeo GenTacticsRodeo GenIRSerde SerdeGen"; PROOFS="SerdeGenProofs" ;;
    *) echo "prop: unknown chain $name"; return 2 ;;
  esac
  mkdir -p "$W" || return 2
  rm -f "$W"/*Gen.v "$W"/*.vo "$W"/*.vok "$W"/*.vos "$W"/*.glob "$W"/*_iso_*.v "$W"/*_iso2_*.v
  for f in $HAND; do cp "$HERE/$f.v" "$W/" || return 2; done
  only=$name; [ $name = findings ] && only=arena
  python3 "$HERE/rust2coq.py" --repo "$REPO" --out "$W" --only $only > "$W/translate.log" 2>&1
  trc=$?
  sed -n 's/^LOST: /LOST /p' "$W/translate.log"
  [ $trc -eq 0 ] || { grep -q '^LOST: ' "$W/translate.log" && return 3; cat "$W/translate.log"; return 2; }
  for f in $PRE; do
    ( cd "$W" && timeout 300 coqc -Q "$VERIF_COQ_DIR" Lasso -Q . LassoGen $f.v ) > "$W/$f.log" 2>&1 || {
      case $f in
        *Gen) echo "FAILED $f.v    (the generated file does not compile: $(grep -m1 -A2 '^File' "$W/$f.log" | tr '\n' ' ' | cut -c1-160))"; return 1 ;;
        *) echo "prop: hand-written $f.v does not compile"; cat "$W/$f.log"; return 2 ;;
      esac; }
  done
  rc=0; pids=""
  for p in $PROOFS; do
    python3 "$HERE/check_thms.py" "$W" $p.v > "$W/$p.out" 2>&1 &
    pids="$pids $!"
  done
  for pid in $pids; do wait $pid || rc=1; done
  for p in $PROOFS; do cat "$W/$p.out"; done
  return $rc
}

worst() {  # combine exit codes: 2 > 1 > 3 > 0
  a=$1; b=$2
  for c in 2 1 3; do { [ $a -eq $c ] || [ $b -eq $c ]; } && { echo $c; return; }; done
  echo 0
}

case $WHAT in
  all)
    mkdir -p "$WORK" || exit 2
    for n in keys arena lockfree rodeo threaded views clone iters serde; do
      ( chain $n "$WORK/$n" > "$WORK/$n.out" 2>&1; echo $? > "$WORK/$n.rc" ) &
    done
    wait
    rc=0
    for n in keys arena lockfree rodeo threaded views clone iters serde; do
      cat "$WORK/$n.out"
      r=$(cat "$WORK/$n.rc" 2>/dev/null || echo 2)
      echo "prop: $n: exit $r"
      rc=$(worst $rc $r)
    done ;;
  keys|arena|lockfree|rodeo|threaded|views|clone|iters|serde|findings)
    chain $WHAT "$WORK"; rc=$? ;;
  *) echo "usage: prop.sh <keys|arena|lockfree|rodeo|threaded|views|clone|iters|serde|findings|all> <repo> <workdir>"; exit 2 ;;
esac
case $rc in 0) echo "prop: $WHAT: OK" ;; 1) echo "prop: $WHAT: FAIL" ;; 3) echo "prop: $WHAT: LOST" ;; *) echo "prop: $WHAT: ERROR" ;; esac
exit $rc
