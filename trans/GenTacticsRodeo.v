(* GenTacticsRodeo.v -- HAND-WRITTEN, fixed.  [gen_rodeo_tac]: the generic tactic for the interner layer (GenIRRodeo.v):
   unfold both sides, run the interpreter with [cbn], split on whatever blocks it -- a table lookup, a comparison, the
   arena's store, an index into the strings vector -- and compare the leaves. *)
From Lasso Require Import Base Arena Rodeo.
From LassoGen Require Import GenPrelude GenIR GenIRRodeo GenTactics.
Open Scope N_scope.

Ltac unfold_rodeo :=
  unfold run_rfun in *;
  repeat autounfold with arenagen in *;
  unfold intern, intern_static, r_get, r_len, r_clear, r_set_limit, strs_contains_key, strs_resolve_ref, try_key in *.

Ltac rodeo_step :=
  match goal with
  | |- context [tlookup ?c ?t ?v ?a ?h ?s] => destruct (tlookup c t v a h s) eqn:?
  | |- context [vec_store ?a ?s] => let a' := fresh "a'" in destruct (vec_store a s) as [a' [?|?]] eqn:?
  | |- context [N.ltb ?a ?b] => destruct (N.ltb_spec a b); try (exfalso; lia)
  | |- context [N.leb ?a ?b] => destruct (N.leb_spec a b); try (exfalso; lia)
  | |- context [N.eqb ?a ?b] => destruct (N.eqb_spec a b); try (exfalso; lia)
  | |- context [nth_error ?l ?n] => destruct (nth_error l n) eqn:?
  end.

Ltac rodeo_exec :=
  repeat (cbn; unfold lookup_here, try_key, intern, intern_static, r_get, r_len, strs_resolve_ref, strs_contains_key; rodeo_step);
  cbn; unfold lookup_here, try_key, intern, intern_static, r_get, r_len, strs_resolve_ref, strs_contains_key; cbn.

(* Forall goals about the table: head by computation, tail from the hypothesis about the old table *)
Ltac keys_ok_leaf :=
  unfold table_keys_ok in *;
  repeat match goal with
  | |- Forall _ (_ :: _) => constructor
  | |- Forall _ [] => constructor
  | H : Forall _ ?t |- Forall _ ?t => eapply Forall_impl; [|exact H]; cbv beta; intros
  end;
  cbn [fst snd] in *; rewrite ?app_length in *; cbn [List.length] in *; try lia.

Ltac rodeo_finish :=
  leaf_intros; split_hyps;
  repeat match goal with
  | H : nth_error _ _ = None |- _ => apply nth_error_None in H
  | H : nth_error ?l ?n = Some _ |- _ =>
      lazymatch goal with
      | _ : (n < List.length l)%nat |- _ => fail
      | _ => assert (n < List.length l)%nat by (apply nth_error_Some; rewrite H; discriminate)
      end
  end;
  first [ eq_close
        | solve [ repeat match goal with |- _ /\ _ => split | |- True => exact I end;
                  try solve [ exact I | eq_close | lia | discriminate | keys_ok_leaf ] ]
        | idtac ].

Ltac gen_rodeo_tac :=
  intros; unfold_rodeo; rodeo_exec; rodeo_finish.
