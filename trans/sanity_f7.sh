#!/bin/sh
# sanity_f7.sh [repo] [workroot] -- finding F7 (Layout::from_size_align_unchecked with a capacity above isize::MAX;
# repaired by /repo commit 784e567) as a sanity check of the chain, NOT a deliverable theorem.  Takes the arena sources
# of the commit BEFORE the repair (read-only `git show <rev>:<file>`; rev from env F7_LEGACY_REV, default: the parent of
# the first commit whose subject mentions "isize::MAX", else HEAD~1) into a scratch copy and shows:
#   (1) the translator still understands the old shape (second accepted shape of with_capacity / layout);
#   (2) the safety theorem FAILS: gen_with_capacity_safe (and _refuses, _spec; gen_ab_layout_shape for the lock-free side);
#   (3) LegacySanityF7.v compiles against it: witness capacity 2^63 violates the collected obligation, and the old code
#       never refuses;   (4) LegacySanityF7.v does NOT compile against the current source.
set -u
HERE=$(cd "$(dirname "$0")" && pwd)
REPO=${1:-/repo}
ROOT=${2:-/tmp/trans-test/f7}
COQ=${VERIF_COQ_DIR:-/verif/coq}
REV=${F7_LEGACY_REV:-}
if [ -z "$REV" ]; then
  FIX=$(git -C "$REPO" log --format=%H --grep='isize::MAX' -n 1 2>/dev/null)
  [ -n "$FIX" ] && REV="$FIX~1" || REV=HEAD~1
fi
rm -rf "$ROOT"; mkdir -p "$ROOT/repo/src/arenas"
for f in bucket single_threaded atomic_bucket lockfree; do
  git -C "$REPO" show "$REV:src/arenas/$f.rs" > "$ROOT/repo/src/arenas/$f.rs" || { echo "sanity_f7: cannot read $REV:src/arenas/$f.rs"; exit 2; }
done
grep -q "from_size_align_unchecked" "$ROOT/repo/src/arenas/bucket.rs" || { echo "sanity_f7: $REV is not a pre-repair revision"; exit 2; }
fail=0
echo "== (1)+(2) proofs against the pre-repair source ($REV): translator ok, safety theorems fail"
"$HERE/prop.sh" arena "$ROOT/repo" "$ROOT/arena" > "$ROOT/arena.log" 2>&1; rc=$?
[ $rc -eq 1 ] || { echo "UNEXPECTED: prop.sh arena exits $rc (wanted 1: translator ok, theorems fail)"; fail=1; }
grep -E "^(FAILED|LOST)" "$ROOT/arena.log" | cut -c1-100
for t in gen_with_capacity_safe gen_with_capacity_refuses gen_with_capacity_spec; do
  grep -q "^FAILED $t " "$ROOT/arena.log" || { echo "UNEXPECTED: $t did not fail"; fail=1; }
done
"$HERE/prop.sh" lockfree "$ROOT/repo" "$ROOT/lockfree" > "$ROOT/lockfree.log" 2>&1; rc=$?
[ $rc -eq 1 ] || { echo "UNEXPECTED: prop.sh lockfree exits $rc (wanted 1)"; fail=1; }
grep -E "^(FAILED|LOST)" "$ROOT/lockfree.log" | cut -c1-100
grep -q "^FAILED gen_ab_layout_shape " "$ROOT/lockfree.log" || { echo "UNEXPECTED: gen_ab_layout_shape did not fail"; fail=1; }
echo "== (3) LegacySanityF7.v against the pre-repair source: must compile (witness 2^63)"
cp "$HERE/LegacySanityF7.v" "$ROOT/arena/"
( cd "$ROOT/arena" && timeout 300 coqc -Q "$COQ" Lasso -Q . LassoGen LegacySanityF7.v ) > "$ROOT/legacy.log" 2>&1 \
  && [ "$(grep -c 'Closed under the global context' "$ROOT/legacy.log")" = 2 ] \
  && echo "PROVED f7_with_capacity_layout_obligation_fails f7_with_capacity_never_refuses" \
  || { echo "UNEXPECTED: LegacySanityF7.v fails"; cat "$ROOT/legacy.log"; fail=1; }
echo "== (4) LegacySanityF7.v against the current source: must NOT compile"
"$HERE/prop.sh" arena "$REPO" "$ROOT/arena0" > "$ROOT/arena0.log" 2>&1 || { echo "UNEXPECTED: current source fails"; fail=1; }
cp "$HERE/LegacySanityF7.v" "$ROOT/arena0/"
( cd "$ROOT/arena0" && timeout 300 coqc -Q "$COQ" Lasso -Q . LassoGen LegacySanityF7.v ) > "$ROOT/legacy0.log" 2>&1 \
  && { echo "UNEXPECTED: LegacySanityF7.v compiles against the repaired source"; fail=1; } \
  || echo "rejected, as it must be: $(grep -m1 -A1 '^File' "$ROOT/legacy0.log" | tr '\n' ' ' | cut -c1-150)"
[ $fail -eq 0 ] && echo "sanity_f7: OK" || echo "sanity_f7: FAIL"
exit $fail
