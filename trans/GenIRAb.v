(* GenIRAb.v -- HAND-WRITTEN, fixed.  IR and interpreter for the bucket-level functions of
   src/arenas/atomic_bucket.rs in the ONE-THREAD view: BucketRef::try_inc_length, UniqueBucketRef::set_len and
   UniqueBucketRef::push_slice.  A bucket is a Lasso.Arena.block: `len` is [bused], `capacity` is [bcap], the
   inline `_data` area is [bdata].  Sequential reading of the atomics: `length.load(_)` is the field;
   `length.compare_exchange_weak(old, new, _, _)` succeeds iff the field equals `old` (no spurious failure);
   `verif_point!` and `hint::spin_loop()` do nothing.  Expressions / results / obligations as in GenIR.v. *)
From Lasso Require Import Base Arena.
From LassoGen Require Import GenPrelude GenIR GenIRLf.
Open Scope N_scope.

Inductive astmt :=
| ASkip
| ASeq (p q : astmt)
| ALet (x : string) (e : expr)
| AAssign (x : string) (e : expr)                  (* x = e  for a `let mut` local *)
| AAssert (c : bexpr)
| AIf (c : bexpr) (t e : astmt)
| AReturn (r : rexpr)
| ALoopN (n : nat) (body : astmt)                  (* for _ in 0..n { body } *)
| ABreak
| ACasLen (old new : expr) (okb : astmt) (x : string) (errb : astmt)
     (* match <len>.compare_exchange_weak(old, new, _, _) { Ok(_) => okb, Err(x) => errb } *)
| ASetLen (e : expr)                               (* unsafe { self.set_len(e) }: by specification *)
| AWriteLen (e : expr)                             (* the exclusive raw write  len := e  (addr_of_mut! of the bucket's len, .get_mut(), assignment) *)
| ALetDataPtr (p : string) (e : expr)              (* let p = <pointer to the bucket's _data>.cast::<u8>().add(e) *)
| ALetRawSlice (t p : string) (e : expr)           (* let t = slice::from_raw_parts_mut(p, e) *)
| ACopyFromSlice (t : string).                     (* t.copy_from_slice(slice) *)

(* what lower_atomic_bucket.py found in AtomicBucket::layout (not interpreted; GenIRLf.ab_wc_spec is derived from it):
   the header layouts Layout::new::<T>() in order, the kind and size of the data layout, the error of the final map_err *)
Record ablayout := mkAbLayout { abl_header : list string; abl_data : layout_kind; abl_size : expr; abl_err : err }.

Record afundef := mkAFun { af_params : list string; af_body : astmt }.
Definition ablock (l : list astmt) : astmt := fold_right ASeq ASkip l.

(* ---------------- specifications ---------------- *)

(* BucketRef::try_inc_length(n), one thread: reserve n bytes behind the current length if they fit *)
Definition try_inc_spec (b : block) (n : N) : block * option N :=
  if bused b + n <=? bcap b then (mkBlock (bid b) (bcap b) (bused b + n) (bdata b), Some (bused b))
  else (b, None).
Definition try_inc_pre1 (b : block) (n : N) : Prop := n <> 0 /\ bused b + n <= usize_max /\ bused b <= bcap b.

(* UniqueBucketRef::set_len(n) *)
Definition set_len_spec (b : block) (n : N) : block := mkBlock (bid b) (bcap b) n (bdata b).
Definition set_len_pre (b : block) (n : N) : Prop := n <= bcap b.

(* ---------------- interpreter ---------------- *)

Inductive aoutcome := ANormal (st : bstate) | ABroke (st : bstate) | ARet (b : block) (v : retval) (ok : Prop) | AStuck.

Definition aleave (n1 n2 n3 : nat) (o : aoutcome) : aoutcome :=
  match o with
  | ANormal (mkB b nums ptrs slices ok) =>
      ANormal (mkB b (keep_last n1 nums) (keep_last n2 ptrs) (keep_last n3 slices) ok)
  | ABroke (mkB b nums ptrs slices ok) =>
      ABroke (mkB b (keep_last n1 nums) (keep_last n2 ptrs) (keep_last n3 slices) ok)
  | o => o
  end.

(* at most k rounds of [step]; `break` ends the loop, `return` the function.  ([simpl nomatch]: symbolic evaluation
   unrolls a round only when the previous one has been decided) *)
Fixpoint loopN (step : bstate -> aoutcome) (k : nat) (st : bstate) : aoutcome :=
  match k with
  | O => ANormal st
  | S k' => match step st with
            | ANormal st' => loopN step k' st'
            | ABroke st' => ANormal st'
            | o => o
            end
  end.
Arguments loopN step k st : simpl nomatch.
Lemma loopN_S step k st :
  loopN step (S k) st =
  match step st with ANormal st' => loopN step k st' | ABroke st' => ANormal st' | o => o end.
Proof. reflexivity. Qed.

Fixpoint execa (s : str) (p : astmt) (st : bstate) : aoutcome :=
  let '(mkB b nums ptrs slices ok) := st in
  let cx := block_cx s b nums in
  match p with
  | ASkip => ANormal (mkB b nums ptrs slices ok)
  | ASeq p q => match execa s p (mkB b nums ptrs slices ok) with ANormal st' => execa s q st' | o => o end
  | ALet x e =>
      match eval cx e with
      | Some (n, q) => ANormal (mkB b ((x, n) :: nums) ptrs slices (ok /\ q))
      | None => AStuck end
  | AAssign x e =>
      match eval cx e, lookup x nums with
      | Some (n, q), Some _ => ANormal (mkB b (update x n nums) ptrs slices (ok /\ q))
      | _, _ => AStuck end
  | AAssert c =>
      match evalb cx c with
      | Some (v, q) => ANormal (mkB b nums ptrs slices (ok /\ q /\ v = true))
      | None => AStuck end
  | AIf c t e =>
      match evalb cx c with
      | Some (v, q) =>
          aleave (List.length nums) (List.length ptrs) (List.length slices)
            (if v then execa s t (mkB b nums ptrs slices (ok /\ q)) else execa s e (mkB b nums ptrs slices (ok /\ q)))
      | None => AStuck end
  | AReturn (RUtf8 t) =>
      match lookup t slices with
      | Some (off, len) => ARet b (RVRef (RArena (bid b) off len)) ok
      | None => AStuck end
  | AReturn r =>
      match eval_ret cx [] r with
      | Some (v, q) => ARet b v (ok /\ q)
      | None => AStuck end
  | ALoopN n body =>
      loopN (fun st0 => let '(mkB b0 nums0 ptrs0 slices0 ok0) := st0 in
                        aleave (List.length nums0) (List.length ptrs0) (List.length slices0)
                               (execa s body (mkB b0 nums0 ptrs0 slices0 ok0)))
            n (mkB b nums ptrs slices ok)
  | ABreak => ABroke (mkB b nums ptrs slices ok)
  | ACasLen old new okb x errb =>
      match eval cx old, eval cx new with
      | Some (o, q1), Some (n, q2) =>
          aleave (List.length nums) (List.length ptrs) (List.length slices)
            (if bused b =? o
             then execa s okb (mkB (mkBlock (bid b) (bcap b) n (bdata b)) nums ptrs slices (ok /\ q1 /\ q2))
             else execa s errb (mkB b ((x, bused b) :: nums) ptrs slices (ok /\ q1 /\ q2)))
      | _, _ => AStuck end
  | ASetLen e =>
      match eval cx e with
      | Some (n, q) => ANormal (mkB (set_len_spec b n) nums ptrs slices (ok /\ q /\ set_len_pre b n))
      | None => AStuck end
  | AWriteLen e =>
      match eval cx e with
      | Some (n, q) => ANormal (mkB (mkBlock (bid b) (bcap b) n (bdata b)) nums ptrs slices (ok /\ q))
      | None => AStuck end
  | ALetDataPtr pn e =>
      match eval cx e with
      | Some (n, q) => ANormal (mkB b nums ((pn, n) :: ptrs) slices (ok /\ q /\ n <= alloc_size b))
      | None => AStuck end
  | ALetRawSlice t pn e =>
      match lookup pn ptrs, eval cx e with
      | Some off, Some (len, q) =>
          ANormal (mkB b nums ptrs ((t, (off, len)) :: slices) (ok /\ q /\ off + len <= alloc_size b))
      | _, _ => AStuck end
  | ACopyFromSlice t =>
      match lookup t slices with
      | Some (off, len) =>
          ANormal (mkB (mkBlock (bid b) (bcap b) (bused b) (bwrite (bdata b) (N.to_nat off) s))
                       nums ptrs slices (ok /\ len = slen s /\ off + len <= alloc_size b))
      | None => AStuck end
  end.

Definition run_afun (fd : afundef) (b : block) (s : str) (args : list N) : option (block * retval) * Prop :=
  match zip_args (af_params fd) args with
  | Some nums =>
      match execa s (af_body fd) (mkB b nums [] [] True) with
      | ARet b' v ok => (Some (b', v), ok)
      | _ => (None, False)
      end
  | None => (None, False)
  end.

(* Result<usize, ()> *)
Definition as_try (o : option (block * retval)) : option (block * option N) :=
  match o with
  | Some (b, RVNum n) => Some (b, Some n)
  | Some (b, RVErrUnit) => Some (b, None)
  | _ => None
  end.

(* the first-fit search of GenIRLf.v is the iteration of try_inc_length *)
Lemma find_fit_try_inc b t n :
  GenIRLf.find_fit (b :: t) n =
  match snd (try_inc_spec b n) with
  | Some _ => Some ([], b, t)
  | None => match GenIRLf.find_fit t n with
            | Some (pre, c, post) => Some (b :: pre, c, post)
            | None => None end
  end.
Proof.
  unfold try_inc_spec, GenIRLf.find_fit; fold GenIRLf.find_fit.
  destruct (bused b + n <=? bcap b); reflexivity.
Qed.
