#!/bin/sh
# run_keys.sh <repo> <workdir> -- kept for compatibility: `prop.sh keys <repo> <workdir>` (exit 0 iff everything is proved)
exec "$(dirname "$0")/prop.sh" keys "$@"
