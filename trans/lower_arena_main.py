#!/usr/bin/env python3
"""lower_arena_main.py -- the two constructor shapes (Bucket::with_capacity, Arena::new) and the driver that writes
ArenaGen.v.  See lower_arena.py for the statement/expression subset.

  Bucket::with_capacity(capacity: NonZeroUsize) -> LassoResult<Self>     recognised shapes (inside an optional `unsafe { }`):
        let L = Layout::from_size_align(SIZE, align_of::<u8>()).map_err(|_| LassoError::new(LassoErrorKind::K))?;      (checked)
     or [debug_assert!(Layout::from_size_align(SIZE, align_of::<u8>()).is_ok());]
        let L = Layout::from_size_align_unchecked(SIZE, align_of::<u8>());                    (unchecked, before 784e567)
     followed by
        let I = NonNull::new(alloc(L)).ok_or_else(|| LassoError::new(LassoErrorKind::K))?.cast();
        Ok(Self { index: E, capacity: NZ, items: I })
     meaning: allocate SIZE bytes (alignment 1; the allocator is assumed not to fail), fields as written.  Checked:
     Err(K) iff SIZE > isize::MAX.  Unchecked: obligation SIZE <= isize::MAX (safety precondition of the constructor).
  Arena::new(capacity: NonZeroUsize, max_memory_usage: usize) -> LassoResult<Self>      recognised shape:
        Ok(Self { buckets: vec![Bucket::with_capacity(NZ)?, ..], bucket_capacity: NZ, memory_usage: E, max_memory_usage: E })
"""
import os
from rsparse import Lost
from lower_arena import (Unit, Known, Fn, strip, names_of, is_path, q, BUCKET_FIELDS, ARENA_FIELDS)


def lower_with_capacity(u, f, known):
    fnl = Fn("plain", "wc", known)
    par = [p for p, _ in f[4]][0]
    fnl.sc.bind(par, "nz", f[1])
    body = u.body(f)
    while not body[2] and body[3] is not None and body[3][0] == "block":      # unsafe { .. }
        body = body[3]
    stmts = list(body[2])

    def lost(e, what): raise Lost(e[1], what)

    def layout_args(c, fname):
        c = strip(c)
        if not (c[0] == "call" and is_path(c[2], "Layout", fname) and len(c[3]) == 2): return None
        al = strip(c[3][1])
        if fnl.num(al) != "EConst 1" or al[0] != "call" or names_of(al[2])[-1] != "align_of":
            lost(c, "alignment argument is not align_of::<u8>()")
        return fnl.num(c[3][0])

    asserted = None
    if stmts and stmts[0][0] == "expr" and stmts[0][2][0] == "macro" and stmts[0][2][2] == "debug_assert":
        m = stmts[0][2]
        a = strip(m[3][0]) if len(m[3]) == 1 else None
        if not (a and a[0] == "mcall" and a[3] == "is_ok" and not a[4]): lost(m, "debug_assert! in with_capacity is not `Layout::from_size_align(..).is_ok()`")
        asserted = layout_args(a[2], "from_size_align")
        if asserted is None: lost(m, "debug_assert! in with_capacity is not `Layout::from_size_align(..).is_ok()`")
        stmts = stmts[1:]
    if len(stmts) != 2 or stmts[0][0] != "let" or stmts[1][0] != "let" or body[3] is None:
        lost(body, "with_capacity body is not `let layout = ..; let items = ..; Ok(Self {..})`")
    l1, l2 = stmts
    if l1[2][0] != "pbind" or l2[2][0] != "pbind": lost(l1, "let pattern")
    lay, items = l1[2][2], l2[2][2]
    # shape 1 (checked):   Layout::from_size_align(SIZE, align_of::<u8>()).map_err(|_| LassoError::new(LassoErrorKind::K))?
    # shape 2 (unchecked): Layout::from_size_align_unchecked(SIZE, align_of::<u8>())        (before commit 784e567)
    e1 = strip(l1[4]); layout = None
    if e1[0] == "try":
        m = strip(e1[2])
        if m[0] == "mcall" and m[3] == "map_err" and len(m[4]) == 1 and m[4][0][0] == "closure" and m[4][0][2] == ["_"]:
            size = layout_args(m[2], "from_size_align")
            if size is not None:
                if asserted is not None: lost(l1, "debug_assert! in front of the checked Layout constructor")
                layout = "LayoutChecked %s" % fnl.errkind(m[4][0][3])
    else:
        size = layout_args(e1, "from_size_align_unchecked")
        if size is not None:
            layout = "LayoutUnchecked (%s)" % ("Some (%s)" % asserted if asserted else "None")
    if layout is None:
        lost(l1, "layout is neither Layout::from_size_align(SIZE, align_of::<u8>()).map_err(|_| LassoError::new(..))? "
                 "nor Layout::from_size_align_unchecked(SIZE, align_of::<u8>())")
    # let items = NonNull::new(alloc(layout)).ok_or_else(|| LassoError::new(LassoErrorKind::K))?.cast();
    e = strip(l2[4]); ok = False
    if e[0] == "try": e = ("mcall", e[1], e, "cast", [])          # the `.cast()` of the allocated pointer is optional
    if e[0] == "mcall" and e[3] == "cast" and not e[4] and strip(e[2])[0] == "try":
        m = strip(strip(e[2])[2])
        if m[0] == "mcall" and m[3] == "ok_or_else" and len(m[4]) == 1 and m[4][0][0] == "closure" and not m[4][0][2]:
            fnl.errkind(m[4][0][3])
            c = strip(m[2])
            if c[0] == "call" and is_path(c[2], "NonNull", "new") and len(c[3]) == 1:
                a = strip(c[3][0])
                if a[0] == "call" and is_path(a[2], "alloc") and len(a[3]) == 1 and is_path(strip(a[3][0]), lay):
                    ok = True
    if not ok: lost(l2, "items is not NonNull::new(alloc(<layout>)).ok_or_else(|| LassoError::new(..))?.cast()")
    t = strip(body[3])
    if not (t[0] == "call" and is_path(t[2], "Ok") and len(t[3]) == 1 and strip(t[3][0])[0] == "struct"): lost(t, "with_capacity result is not Ok(Self {..})")
    s = strip(t[3][0])
    if names_of(s[2]) not in (["Self"], ["Bucket"]): lost(s, "struct literal of another type")
    flds = dict(s[3])
    if set(flds) != set(BUCKET_FIELDS) or len(s[3]) != 3: lost(s, "Bucket literal does not initialise exactly index, items, capacity")
    if not is_path(strip(flds["items"]), items): lost(s, "field items is not the allocated pointer")
    idx = fnl.num(flds["index"]); cap = fnl.nz(flds["capacity"])
    text = "(* %s:%d-%d  fn with_capacity *)\nDefinition gen_with_capacity : wcdef :=\n  mkWc %s (%s)\n    (* size  *) (%s)\n    (* index *) (%s)\n    (* capacity *) (%s).\n" % (
        u.rel, f[1], f[7], q(par), layout, size, idx, cap)
    return text


def lower_new(u, f, known):
    fnl = Fn("plain", "new", known)
    (p1, _), (p2, _) = f[4]
    fnl.sc.bind(p1, "nz", f[1]); fnl.sc.bind(p2, "num", f[1])
    body = u.body(f)

    def lost(e, what): raise Lost(e[1], what)
    if body[2] or body[3] is None: lost(body, "Arena::new body is not a single `Ok(Self {..})` expression")
    t = strip(body[3])
    if not (t[0] == "call" and is_path(t[2], "Ok") and len(t[3]) == 1 and strip(t[3][0])[0] == "struct"): lost(t, "Arena::new result is not Ok(Self {..})")
    s = strip(t[3][0])
    if names_of(s[2]) not in (["Self"], ["Arena"]): lost(s, "struct literal of another type")
    flds = dict(s[3])
    if set(flds) != set(ARENA_FIELDS) or len(s[3]) != 4: lost(s, "Arena literal does not initialise exactly its four fields")
    v = strip(flds["buckets"])
    if not (v[0] == "macro" and v[2] == "vec"): lost(v, "buckets is not a vec![..] literal")
    bks = []
    for b in v[3]:
        b = strip(b)
        if not (b[0] == "try" and strip(b[2])[0] == "call" and is_path(strip(b[2])[2], "Bucket", "with_capacity") and len(strip(b[2])[3]) == 1):
            lost(b, "vec! element is not Bucket::with_capacity(NZ)?")
        known.need("Bucket", "with_capacity", b[1])
        bks.append(fnl.nz(strip(b[2])[3][0]))
    text = "(* %s:%d-%d  fn new *)\nDefinition gen_new : newdef :=\n  mkNew [%s; %s]\n    (* buckets *) [%s]\n    (* bucket_capacity *) (%s)\n    (* memory_usage *) (%s)\n    (* max_memory_usage *) (%s).\n" % (
        u.rel, f[1], f[7], q(p1), q(p2), "; ".join(bks), fnl.nz(flds["bucket_capacity"]), fnl.num(flds["memory_usage"]), fnl.num(flds["max_memory_usage"]))
    return text


def run(repo, out):
    known = Known()
    B = Unit(repo, "src/arenas/bucket.rs", "Bucket", BUCKET_FIELDS)
    A = Unit(repo, "src/arenas/single_threaded.rs", "Arena", ARENA_FIELDS)
    # calls the lowering interprets itself (by specification); every other call of a function of the same file is inlined
    B.keep = lambda ty, name, node: (ty, name) in {("Bucket", "is_full")}
    A.keep = lambda ty, name, node: (ty, name) in {("Arena", "allocate_memory")}
    parts = []

    def guard(u, fn, *a):
        try:
            return fn(u, *a)
        except Lost as e:
            if not getattr(e, "file", None): e.file = u.path
            raise

    # ---- Bucket ----
    f = B.fn("with_capacity", [("capacity", "NonZeroUsize")], "LassoResult<Self>")
    parts.append(guard(B, lower_with_capacity, f, known))
    for name, gen, params, ret, rk, kinds, quals in [
            ("free_elements", "gen_free_elements", [("self", "&self")], "usize", "usize", [], ()),
            ("is_full", "gen_is_full", [("self", "&self")], "bool", "bool", [], ()),
            ("clear", "gen_bucket_clear", [("self", "&mut self")], None, "unit", [], ()),
            ("push_slice", "gen_push_slice", [("self", "&mut self"), ("slice", "&[u8]")], "&'static str", "str", ["str"], ("unsafe",))]:
        f = B.fn(name, params, ret, quals)
        ps, st, _ = B.lower_fn(f, "bucket", rk, known, kinds)
        parts.append(B.emit_fun(gen, f, ps, st))
    # ---- Arena ----
    f = A.fn("new", [("capacity", "NonZeroUsize"), ("max_memory_usage", "usize")], "LassoResult<Self>")
    parts.append(guard(A, lower_new, f, known))
    for name, gen, params, ret, rk, kinds, quals in [
            ("memory_usage", "gen_memory_usage", [("self", "&self")], "usize", "usize", [], ()),
            ("clear", "gen_clear", [("self", "&mut self")], None, "unit", [], ()),
            ("allocate_memory", "gen_allocate_memory", [("self", "&mut self"), ("n", "usize")], "LassoResult<()>", "res_unit", ["num"], ()),
            ("store_str", "gen_store_str", [("self", "&mut self"), ("string", "&str")], "LassoResult<&'static str>", "res_str", ["str"], ("unsafe",))]:
        f = A.fn(name, params, ret, quals)
        ps, st, _ = A.lower_fn(f, "arena", rk, known, kinds)
        parts.append(A.emit_fun(gen, f, ps, st))
    hdr = """(* ArenaGen.v -- GENERATED by rust2coq.py from
     %s
     %s
   DO NOT EDIT: regenerated on every run.  Terms of the IR of GenIR.v (see there for their meaning and
   lower_arena.py for the recognised source forms).  Callees replaced by their specification in these terms:
     %s
   Private helpers of the source files inlined before lowering (astx.py): %s *)
From Lasso Require Import Base Arena.
From LassoGen Require Import GenPrelude GenIR.
Open Scope string_scope.
Open Scope N_scope.

""" % (B.path, A.path, ", ".join(sorted(set("%s::%s" % (t, n) for t, n, _ in known.needs))), ", ".join(sorted(B.inlined | A.inlined)) or "none")
    names = ["gen_with_capacity", "gen_free_elements", "gen_is_full", "gen_bucket_clear", "gen_push_slice", "gen_new",
             "gen_memory_usage", "gen_clear", "gen_allocate_memory", "gen_store_str"]
    tail = "\n#[global] Hint Unfold %s : arenagen.\n" % " ".join(names)
    open(os.path.join(out, "ArenaGen.v"), "w").write(hdr + "\n".join(parts) + tail)
    print("rust2coq: arena: %d definitions -> %s" % (len(names), os.path.join(out, "ArenaGen.v")))
