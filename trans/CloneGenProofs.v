(* CloneGenProofs.v -- HAND-WRITTEN ONCE (not generated).  The clone paths of src/rodeo.rs (CloneGen.v, interpreted by
   GenIRClone.v) are the model's clone_into / r_clone_from / r_clone (Rodeo.step: Clone, CloneFrom), for ALL interners,
   hashers, probe relations, growth policies and key capacities.  The loop is related to clone_into by ONE induction
   (clone_loop_eq); its body, and everything else, by the generic tactic of the rodeo chain. *)
From Lasso Require Import Base Arena Rodeo.
From LassoGen Require Import GenPrelude GenIR GenIRRodeo GenIRClone GenTactics GenTacticsRodeo CloneGen.
Open Scope N_scope.

Section Proofs.
  Variable hash : str -> N.
  Variable cand : N -> N -> bool.
  Variable growf : N -> bool.
  Variable keycap : N.

  (* clone_strings_into: string by string, position by position, the model's clone_into *)
  Theorem clone_loop_eq : forall src idx dst,
    fst (clone_loop hash cand growf keycap gen_clone_body src idx dst)
    = Some (clone_into hash cand growf keycap src idx dst).
  Proof.
    set (B := gen_clone_body).
    induction src as [|s rest IH]; intros idx dst; [reflexivity|].
    cbn [clone_loop clone_into]. unfold B at 1 2. repeat autounfold with arenagen.
    repeat (cbn [rf_params rf_body zip_args rexec rblock fold_right]; cbn;
            unfold lookup_here, try_key; rodeo_step);
    cbn; unfold lookup_here, try_key; cbn;
    try match goal with
        | |- context [clone_loop ?h ?c ?g ?k ?b rest ?i ?d] =>
            specialize (IH i d); destruct (clone_loop h c g k b rest i d) as [res okr]; cbn in IH |- *; exact IH
        end;
    try eq_close.
  Qed.

  (* try_clone_from: clear, take over the source's hasher, reserve, fill -- r_clone_from *)
  Theorem gen_try_clone_from_eq : forall tgt src,
    match run_clone_from hash cand growf keycap gen_clone_body gen_try_clone_from tgt src with
    | Some (v, _) => Some v | None => None end
    = option_map Some (r_clone_from hash cand growf keycap tgt src).
  Proof.
    intros. unfold run_clone_from, r_clone_from. destruct (contents (rstrs src) (rar src)) as [cs|]; [|reflexivity].
    repeat autounfold with arenagen. cbn [run_steps option_map].
    pose proof (clone_loop_eq cs 0 (r_clear tgt)) as E. repeat autounfold with arenagen in E.
    destruct (clone_loop _ _ _ _ _ cs 0 (r_clear tgt)) as [res okr]. cbn in E. subst res.
    destruct (clone_into hash cand growf keycap cs 0 (r_clear tgt)) as [t' [| |]]; reflexivity.
  Qed.

  (* try_clone: exact-fit arena (sum of the lengths, or the default), limit max(source limit, capacity), one hasher clone
     made up front, used for filling and stored -- r_clone *)
  Theorem gen_try_clone_eq : forall src,
    match run_clone hash cand growf keycap gen_clone_body gen_try_clone src with
    | Some (v, _) => Some v | None => None end
    = option_map Some (r_clone hash cand growf keycap src).
  Proof.
    intros. unfold run_clone, r_clone. destruct (contents (rstrs src) (rar src)) as [cs|]; [|reflexivity].
    repeat autounfold with arenagen. cbn [run_steps option_map].
    set (cap := if sum_N (map slen cs) =? 0 then default_bytes else sum_N (map slen cs)).
    pose proof (clone_loop_eq cs 0 (rodeo_new cap (N.max (limit (rar src)) cap))) as E. repeat autounfold with arenagen in E.
    destruct (clone_loop _ _ _ _ _ cs 0 _) as [res okr]. cbn in E. subst res.
    destruct (clone_into hash cand growf keycap cs 0 _) as [t' [| |]]; reflexivity.
  Qed.
  (* ---------------- obligations ---------------- *)

  Lemma table_keys_ok_tinsert t strs a h k :
    table_keys_ok ((h, k) :: t) strs -> table_keys_ok (tinsert hash growf t strs a h k) strs.
  Proof.
    unfold table_keys_ok, tinsert. intros H. inversion H as [|x l Hx Ht]; subst. constructor; [exact Hx|].
    destruct (growf _); [|exact Ht].
    apply Forall_forall. intros e He. apply in_map_iff in He as (e0 & <- & Hin). cbn [snd].
    exact (proj1 (Forall_forall _ _) Ht e0 Hin).
  Qed.

  Lemma table_keys_ok_app t strs x : table_keys_ok t strs -> table_keys_ok t (strs ++ [x]).
  Proof.
    unfold table_keys_ok. intros H. eapply Forall_impl; [|exact H]. cbv beta. intros e He.
    rewrite app_length. cbn [List.length]. lia.
  Qed.

  (* every index_unchecked! inside the table closures of the loop body is in bounds, in every iteration: the keys in the
     table index the strings vector, and the next key is the next position *)
  Theorem clone_loop_safe : forall src idx dst,
    table_keys_ok (rmap dst) (rstrs dst) -> idx = N.of_nat (List.length (rstrs dst)) ->
    snd (clone_loop hash cand growf keycap gen_clone_body src idx dst).
  Proof.
    set (B := gen_clone_body).
    induction src as [|s rest IH]; intros idx dst Hk Hi; [exact I|].
    cbn [clone_loop]. unfold B at 1 2. repeat autounfold with arenagen.
    repeat (cbn [rf_params rf_body zip_args rexec rblock fold_right]; cbn;
            unfold lookup_here, try_key; rodeo_step);
    cbn; unfold lookup_here, try_key; cbn.
    all: try match goal with
        | |- context [clone_loop ?h ?c ?g ?k ?b ?r ?i ?d] =>
            let Hn := fresh in
            assert (Hn : snd (clone_loop h c g k b r i d));
            [ apply IH; cbn [rmap rstrs rar];
              [ apply table_keys_ok_tinsert; constructor;
                [ cbn [snd]; rewrite app_length; cbn [List.length]; lia | apply table_keys_ok_app; exact Hk ]
              | rewrite app_length; cbn [List.length]; lia ]
            | destruct (clone_loop h c g k b r i d) as [res okr]; cbn [snd] in Hn |- * ]
        end.
    all: repeat match goal with |- _ /\ _ => split | |- True => exact I end.
    all: try assumption.
    all: try (apply table_keys_ok_app; exact Hk).
    all: try (constructor; [cbn [snd]; rewrite app_length; cbn [List.length]; lia | apply table_keys_ok_app; exact Hk]).
  Qed.

  Theorem gen_try_clone_from_safe : forall tgt src cs, contents (rstrs src) (rar src) = Some cs ->
    snd (run_steps hash cand growf keycap gen_clone_body cs (limit (rar src)) gen_try_clone_from
                   (mkCs tgt HTargetOld None None True)).
  Proof.
    intros. repeat autounfold with arenagen. cbn [run_steps r_clear rmap].
    pose proof (clone_loop_safe cs 0 (r_clear tgt) (Forall_nil _) eq_refl) as S. repeat autounfold with arenagen in S.
    pose proof (clone_loop_eq cs 0 (r_clear tgt)) as E. repeat autounfold with arenagen in E.
    destruct (clone_loop _ _ _ _ _ cs 0 (r_clear tgt)) as [[[t' [| |]]|] okr]; cbn [fst snd] in S, E |- *; auto; discriminate E.
  Qed.

  Theorem gen_try_clone_safe : forall src cs, contents (rstrs src) (rar src) = Some cs ->
    snd (run_steps hash cand growf keycap gen_clone_body cs (limit (rar src)) gen_try_clone
                   (mkCs src HSourceItself None None True)).
  Proof.
    intros. repeat autounfold with arenagen. cbn [run_steps].
    set (cap := if sum_N (map slen cs) =? 0 then default_bytes else sum_N (map slen cs)).
    pose proof (clone_loop_safe cs 0 (rodeo_new cap (N.max (limit (rar src)) cap)) (Forall_nil _) eq_refl) as S.
    repeat autounfold with arenagen in S.
    pose proof (clone_loop_eq cs 0 (rodeo_new cap (N.max (limit (rar src)) cap))) as E. repeat autounfold with arenagen in E.
    destruct (clone_loop _ _ _ _ _ cs 0 _) as [[[t' [| |]]|] okr]; cbn [fst snd] in S, E |- *; auto; discriminate E.
  Qed.
End Proofs.

Theorem gen_clone_wrappers : gen_clone_wrappers_expect = true.
Proof. reflexivity. Qed.

Print Assumptions clone_loop_eq.
Print Assumptions gen_try_clone_from_eq.
Print Assumptions gen_try_clone_eq.
Print Assumptions gen_clone_wrappers.
Print Assumptions clone_loop_safe.
Print Assumptions gen_try_clone_from_safe.
Print Assumptions gen_try_clone_safe.
