#!/usr/bin/env python3
"""check_thms.py <workdir> <Proofs.v> -- compile a hand-written proofs file against freshly generated definitions
and print one line per `Theorem`:   PROVED <name> | FAILED <name> | OPEN-ASSUMPTIONS <name>

First the whole file is compiled.  If that works, every theorem is PROVED (and the number of
`Closed under the global context` lines must equal the number of `Print Assumptions`).  If it fails, each theorem
is re-checked in isolation (common text + that one theorem) so that the report names every failing theorem, not just
the first.  Exit status 0 iff all theorems are proved and closed."""
import os, re, subprocess, sys

COQ_LASSO = os.environ.get("VERIF_COQ_DIR") or os.environ.get("LASSO_COQ_DIR") or "/verif/coq"
FORBIDDEN = re.compile(r"\b(Axiom|Axioms|Parameter|Parameters|Conjecture|Admitted|admit)\b")
FORBIDDEN_TOP = re.compile(r"\b(Variable|Variables|Hypothesis|Hypotheses|Context)\b")     # allowed inside a Section only


def open_sections(text):
    """names of the sections still open at the end of `text`"""
    stack = []
    for m in re.finditer(r"^\s*(Section|End)\s+([A-Za-z0-9_']+)\s*\.", text, flags=re.M):
        if m.group(1) == "Section": stack.append(m.group(2))
        elif stack and stack[-1] == m.group(2): stack.pop()
    return stack


def outside_sections(text):
    out, depth, pos = [], 0, 0
    for m in re.finditer(r"^\s*(Section|End)\s+([A-Za-z0-9_']+)\s*\.", text, flags=re.M):
        if depth == 0: out.append(text[pos:m.start()])
        depth += 1 if m.group(1) == "Section" else -1
        pos = m.end()
    if depth <= 0: out.append(text[pos:])
    return "".join(out)


def coqc(workdir, fname):
    cmd = ["timeout", "300", "coqc", "-Q", COQ_LASSO, "Lasso", "-Q", ".", "LassoGen", fname]
    r = subprocess.run(cmd, cwd=workdir, stdout=subprocess.PIPE, stderr=subprocess.STDOUT, universal_newlines=True)
    return r.returncode, r.stdout


def split(text):
    """-> list of ('common', text) / ('thm', name, text)"""
    chunks, cur, mode, name = [], [], "common", None
    for line in text.splitlines(True):
        m = re.match(r"\s*Theorem\s+([A-Za-z0-9_']+)", line)
        if mode == "common" and m:
            if cur: chunks.append(("common", "".join(cur)))
            cur, mode, name = [line], "thm", m.group(1)
            if re.search(r"\bQed\.\s*$", line):
                chunks.append(("thm", name, "".join(cur))); cur, mode = [], "common"
            continue
        cur.append(line)
        if mode == "thm" and re.search(r"\bQed\.\s*$", line):
            chunks.append(("thm", name, "".join(cur))); cur, mode = [], "common"
    if mode == "thm":
        raise SystemExit("check_thms: theorem %s has no Qed" % name)
    if cur: chunks.append(("common", "".join(cur)))
    return chunks


def main():
    workdir, fname = sys.argv[1], sys.argv[2]
    text = open(os.path.join(workdir, fname)).read()
    nocomment = re.sub(r"\(\*.*?\*\)", "", text, flags=re.S)
    m = FORBIDDEN.search(nocomment) or FORBIDDEN_TOP.search(outside_sections(nocomment))
    if m:
        print("FORBIDDEN vernacular `%s` in %s" % (m.group(1), fname)); sys.exit(1)
    chunks = split(text)
    names = [c[1] for c in chunks if c[0] == "thm"]
    if len(names) != len(re.findall(r"^\s*(?:Theorem|Lemma|Corollary)\s", nocomment, flags=re.M)) - len(re.findall(r"^\s*(?:Lemma|Corollary)\s", nocomment, flags=re.M)):
        print("check_thms: theorem count mismatch in %s" % fname); sys.exit(2)
    rc, out = coqc(workdir, fname)
    if rc == 0:
        closed = out.count("Closed under the global context")
        asked = len(re.findall(r"^Print Assumptions", text, flags=re.M))
        bad = closed != asked or asked < len(names)
        for n in names:
            print("%s %s" % ("OPEN-ASSUMPTIONS" if bad else "PROVED", n))
        if bad: print(out)
        sys.exit(1 if bad else 0)
    # isolate: every theorem on its own (in parallel), so that the report names every failing theorem, not only the first.
    # Pass 1: common text + the theorem.  Pass 2 (only for theorems that failed pass 1): additionally the theorems that
    # passed, in file order, before it -- a corollary of a proved theorem is then proved, one of a failed theorem fails.
    print("-- %s does not compile as a whole; first error:" % fname)
    print("\n".join("   " + l for l in out.strip().splitlines()[-6:]))
    from concurrent.futures import ThreadPoolExecutor
    base = os.path.splitext(fname)[0]
    jobs = []; common = ""
    for c in chunks:
        if c[0] == "common":
            common += re.sub(r"^Print Assumptions.*$", "", c[1], flags=re.M)
        else:
            jobs.append((c[1], common, c[2]))

    def check(job, extra="", tag="iso"):
        name, com, thm = job
        tmp = "%s_%s_%s.v" % (base, tag, name)
        body = com + extra + thm
        closing = "".join("\nEnd %s." % n for n in reversed(open_sections(re.sub(r"\(\*.*?\*\)", "", body, flags=re.S))))
        open(os.path.join(workdir, tmp), "w").write(body + closing + "\nPrint Assumptions %s.\n" % name)
        rc1, out1 = coqc(workdir, tmp)
        if rc1 == 0 and "Closed under the global context" in out1: return "PROVED", ""
        if rc1 == 0: return "OPEN-ASSUMPTIONS", ""
        err = [l for l in out1.strip().splitlines() if l.strip()]
        return "FAILED", " ".join(err[-2:])[:160]
    with ThreadPoolExecutor(max_workers=int(os.environ.get("PROP_JOBS", "8"))) as ex:
        res = list(ex.map(check, jobs))
    proved_text = ""
    for k, job in enumerate(jobs):
        st, msg = res[k]
        if st == "FAILED" and proved_text:
            st, msg = check(job, proved_text, "iso2")
        if st == "PROVED":
            proved_text += job[2]
            print("PROVED %s" % job[0])
        elif st == "OPEN-ASSUMPTIONS":
            print("OPEN-ASSUMPTIONS %s" % job[0])
        else:
            print("FAILED %s    (%s)" % (job[0], msg))
    sys.exit(1)


if __name__ == "__main__":
    main()
