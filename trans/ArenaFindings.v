(* ArenaFindings.v -- HAND-WRITTEN.  HISTORY: up to /repo commit fefaae2, Bucket::with_capacity built its Layout with
   Layout::from_size_align_unchecked, whose safety precondition (size <= isize::MAX) is not implied by NonZeroUsize;
   capacity 2^63 -- a legal argument of the safe constructors Capacity::for_bytes / Rodeo::with_capacity / Arena::new --
   violated it (confirmed with Miri on the real crate).  Commit 784e567 repaired it with the checked constructor.
   The statements below are the REPAIRED counterparts of the three former witnesses: at the same inputs every collected
   obligation now holds and the call returns Err(FailedAllocation).  (The former witnesses are in LegacySanityF7.v and are
   checked against the pre-repair source by sanity_f7.sh.)  Compiled by run_findings.sh / `prop.sh findings`. *)
From Lasso Require Import Base Arena ArenaProofs.
From LassoGen Require Import GenPrelude GenIR GenRequest GenTactics ArenaGen.
Open Scope N_scope.

(* run the generated program symbolically on a concrete input (the data bytes are never materialised) *)
Ltac cmp_step :=
  match goal with
  | |- context [N.ltb ?a ?b] => destruct (N.ltb_spec a b); try (exfalso; lia)
  | |- context [N.leb ?a ?b] => destruct (N.leb_spec a b); try (exfalso; lia)
  | |- context [N.eqb ?a ?b] => destruct (N.eqb_spec a b); try (exfalso; lia)
  end.
Ltac norm_slen :=
  repeat match goal with
  | |- context [slen ?l] =>
      let v := eval vm_compute in (slen l) in
      lazymatch v with N0 => idtac | Npos _ => idtac end; change (slen l) with v
  end.
Ltac run_concrete :=
  unfold_all; unfold isize_max, usize_max in *; norm_pow;
  repeat (cbn; unfold alloc_spec, wc_spec, isize_max, usize_max, push_slice, free_spec, is_full_spec, last_opt; norm_slen; try cmp_step);
  unfold_props; norm_pow; cbn.

Theorem with_capacity_layout_repaired :
  let cap := 2 ^ 63 in
  fst (run_wc gen_with_capacity 0 cap) = Some (Err FailedAllocation) /\ snd (run_wc gen_with_capacity 0 cap).
Proof. cbv zeta. split; run_concrete; prop_close. Qed.

Theorem new_layout_repaired :
  let cap := 2 ^ 63 in
  fst (run_new gen_new [cap; usize_max]) = Some (Err FailedAllocation) /\ snd (run_new gen_new [cap; usize_max]).
Proof. cbv zeta. split; run_concrete; prop_close. Qed.

(* a bucket capacity of 2^62: the doubled bucket would have 2^63 bytes.  All obligations hold; the call books the
   2^63 bytes, doubles the capacity, and then reports the failed allocation (finding #3: the accounting is not undone) *)
Definition big_arena : arena := mkArena [mkBlock 0 1 1 [0]] (2 ^ 62) 1 usize_max 1.
Theorem store_str_big_bucket_repaired :
  ArenaInv big_arena /\ arena_typed big_arena /\ store_dom big_arena [7] /\
  snd (run_fun gen_store_str big_arena [7] []) /\
  as_str_result (fst (run_fun gen_store_str big_arena [7] []))
    = Some (mkArena [mkBlock 0 1 1 [0]] (2 ^ 63) (1 + 2 ^ 63) usize_max 1, Err FailedAllocation).
Proof.
  split; [|split; [|split; [|split]]].
  - unfold ArenaInv, big_arena, block_ok; cbn. repeat split; try discriminate; try lia;
      repeat constructor; cbn; try lia; try tauto; try reflexivity.
  - unfold arena_typed, big_arena, usize_max; cbn. repeat split; try lia. repeat constructor; cbn; lia.
  - unfold store_dom, big_arena, usize_max; cbn. change (slen [7]) with 1. norm_pow. lia.
  - unfold big_arena. run_concrete; prop_close.
  - unfold big_arena. run_concrete; norm_pow; eq_close.
Qed.

Print Assumptions with_capacity_layout_repaired.
Print Assumptions new_layout_repaired.
Print Assumptions store_str_big_bucket_repaired.
