#!/usr/bin/env python3
"""lower_threaded.py -- ONE-THREAD view of src/threaded_rodeo.rs  ->  ThreadedGen.v (terms of the IR of GenIRThreaded.v).

Checked structure: `struct ThreadedRodeo { map: DashMap<&'static str, K, S>, strings: DashMap<K, &'static str, S>,
key: AtomicUsize, arena: LockfreeArena }`; every translated method exists exactly once over the inherent impls.
Recognised forms (STR = `val`, `val.as_ref()` and its aliases, or the `&'static str` parameter; verif_point!(..) = nothing):
  numbers    literal | usize / key locals | K.into_usize() | *k (k bound by `if let Some(k) = self.map.get(..)`) | *o.get() (o occupied)
             | *b.as_ref().1.get() (b the occupied bucket) | self.strings.len() | self.len() (checked accessor)
             | self.arena.current_memory_usage() | self.arena.get_max_memory_usage() | memory_limits.max_memory_usage
  statements let x = val.as_ref();       if let Some(k) = self.map.get(STR) { A } else { B }       if c {..} [else {..}]     return R;
             let h = self.map.hasher().hash_one(STR);
             let i = self.map.determine_shard(h as usize);   let mut sh = self.map.shards().get(i).unwrap().write();
             let x = match sh.find_or_find_insert_slot(h, |(k, _)| *k == STR, |(k, _)| self.map.hasher().hash_one(k)) { Ok(b) => A, Err(slot) => B };
             let x = match self.map.entry(STATIC STR) { Entry::Occupied(o) => A, Entry::Vacant(v) => B };
             let r [: &'static str] = [unsafe {] self.arena.store_str(STR)? [}];
             let k = K::try_from_usize(self.key.fetch_add(1, Ordering::_)).ok_or_else(|| LassoError::new(LassoErrorKind::X))?;
             self.strings.insert(k, r | STATIC STR);     [unsafe {] sh.insert_in_slot(h, slot, (r, SharedValue::new(k))); [}]      v.insert(k);
             self.arena.set_max_memory_usage(e);
  results    Ok(k) | Err(..) | self.map.get(STR).map(|k| *k) | self.get(val) [.is_some()] | self.strings.get(key).is_some()
             | self.strings.get(key).map(|s| *s) | *self.strings.get(key).expect("..") | <boolean> | <number>
             | self.try_get_or_intern[_static](val).expect("..")
"""
import os
import rsparse
from rsparse import Lost
from lower_arena import Fn, Known, strip, names_of, is_path, is_self_field, q
from lower_lockfree import LScope, is_ordering

FIELDS = {"map": "DashMap<&'static str,K,S>", "strings": "DashMap<K,&'static str,S>", "key": "AtomicUsize", "arena": "LockfreeArena"}


class TFn(Fn):
    def __init__(self, rkind, known, env):
        Fn.__init__(self, "threaded", rkind, known)
        self.sc = LScope()
        self.env = env

    def kind(self, e):
        e = strip(e)
        return self.sc.get(names_of(e)[0]) if e[0] == "path" and len(names_of(e)) == 1 else None

    def is_static(self, e): return self.kind(e) == "static"

    def is_str(self, e):
        """Is e THE string argument?  One evaluation of `<param>.as_ref()` only (see lower_rodeo.RFn.is_str)."""
        k = self.kind(e)
        if k in ("str", "static"): return True
        e = strip(e)
        if k == "strlike": self.evaluates_as_ref(e); return True
        if e[0] == "mcall" and e[3] == "as_ref" and not e[4] and self.kind(e[2]) == "strlike":
            self.evaluates_as_ref(e); return True
        return False

    def evaluates_as_ref(self, node):
        seen = self.env.setdefault("as_ref_nodes", {})
        seen[id(node)] = node
        if len(seen) > 1:
            self.lost(node, "as_ref() evaluated more than once: `T: AsRef<str>` need not return the same string again")

    def map_hasher(self, e):
        e = strip(e)
        if self.kind(e) == "hasher": return True        # let hb = self.map.hasher();
        return e[0] == "mcall" and e[3] == "hasher" and not e[4] and is_self_field(strip(e[2]), "map")

    def num(self, e):
        e0 = strip(e); k = e0[0]
        if k == "path" and self.kind(e0) in ("key", "hash"): return "EVar %s" % q(names_of(e0)[0])
        if k == "un" and e0[2] == "*":
            m = strip(e0[3])
            if self.kind(m) == "refkey": return "EVar %s" % q(names_of(m)[0])
            if m[0] == "mcall" and m[3] == "get" and not m[4]:
                r = strip(m[2])
                if self.kind(r) == "occ": return "EVar %s" % q(names_of(r)[0])
                if r[0] == "tfield" and r[3] == 1 and strip(r[2])[0] == "mcall" and strip(r[2])[3] == "as_ref" and not strip(r[2])[4] \
                        and self.kind(strip(r[2])[2]) == "bucket":
                    return "EVar %s" % q(names_of(strip(strip(r[2])[2]))[0])
        if k == "mcall" and not e0[4]:
            recv, name = strip(e0[2]), e0[3]
            if name == "into_usize" and self.kind(recv) in ("key", "refkey"): return "EVar %s" % q(names_of(recv)[0])
            if name == "len" and is_self_field(recv, "strings"): return "EField FStringsLen"
            if name == "len" and is_path(recv, "self"):
                if "len" not in self.env["accessors"]: self.lost(e0, "self.len() is not the plain `self.strings.len()`")
                return "EField FStringsLen"
            if name == "current_memory_usage" and is_self_field(recv, "arena"):
                self.known.need("LockfreeArena", "current_memory_usage", e0[1]); return "EField FUsage"
            if name == "get_max_memory_usage" and is_self_field(recv, "arena"):
                self.known.need("LockfreeArena", "get_max_memory_usage", e0[1]); return "EField FMaxMem"
        if k == "field" and e0[3] == "max_memory_usage" and self.kind(e0[2]) == "limits":
            return "EVar %s" % q(names_of(strip(e0[2]))[0])
        return Fn.num(self, e)

    def key_num(self, e):
        z = strip(e)
        if self.kind(z) == "key": return "EVar %s" % q(names_of(z)[0])
        if z[0] == "un": return self.num(z)
        self.lost(z, "expected a key value")

    def map_get(self, e):
        """self.map.get(STR)"""
        e = strip(e)
        return e[0] == "mcall" and e[3] == "get" and is_self_field(strip(e[2]), "map") and len(e[4]) == 1 and self.is_str(e[4][0])

    def strings_get(self, e):
        """self.strings.get(key) -> key IR or None"""
        e = strip(e)
        if e[0] == "mcall" and e[3] == "get" and is_self_field(strip(e[2]), "strings") and len(e[4]) == 1 and self.kind(e[4][0]) == "key":
            return "EVar %s" % q(names_of(strip(e[4][0]))[0])
        return None

    def deref_closure(self, c):
        return c[0] == "closure" and len(c[2]) == 1 and isinstance(c[2][0], str) and c[2][0] != "_" and \
            strip(c[3])[0] == "un" and strip(c[3])[2] == "*" and is_path(strip(strip(c[3])[3]), c[2][0])

    def result(self, e):
        e0 = strip(e); rk = self.rkind
        if rk == "res_key" and e0[0] == "call" and e0[2][0] == "path" and len(e0[3]) == 1:
            if names_of(e0[2]) == ["Ok"]: return "TROkKey (%s)" % self.key_num(e0[3][0])
            if names_of(e0[2]) == ["Err"]: return "TRErr %s" % self.errkind(e0[3][0])
        if rk == "key" and e0[0] == "mcall" and e0[3] == "expect" and len(e0[4]) == 1 and e0[4][0][0] == "strlit":
            m = strip(e0[2])
            if m[0] == "mcall" and is_path(strip(m[2]), "self") and len(m[4]) == 1 and self.is_str(m[4][0]):
                if m[3] == "try_get_or_intern" and not self.is_static(m[4][0]): return "TRExpectIntern"
                if m[3] == "try_get_or_intern_static" and self.is_static(m[4][0]): return "TRExpectInternStatic"
        if rk == "opt_key":
            if e0[0] == "mcall" and e0[3] == "map" and len(e0[4]) == 1 and self.deref_closure(e0[4][0]) and self.map_get(e0[2]):
                return "TRMapGet"
            if e0[0] == "mcall" and e0[3] == "get" and is_path(strip(e0[2]), "self") and len(e0[4]) == 1 and self.is_str(e0[4][0]): return "TRSelfGet"
        if rk == "bool":
            if e0[0] == "mcall" and e0[3] == "is_some" and not e0[4]:
                g = strip(e0[2])
                if g[0] == "mcall" and g[3] == "get" and is_path(strip(g[2]), "self") and len(g[4]) == 1 and self.is_str(g[4][0]): return "TRSelfGetIsSome"
                k = self.strings_get(g)
                if k: return "TRStrsIsSome (%s)" % k
            # DashMap::contains_key(k) = get(k).is_some()   (dashmap 6.0.0: lib.rs:846-852 contains_key -> _contains_key,
            # t.rs:123-129  `fn _contains_key(..) { self._get(key).is_some() }`)
            if e0[0] == "mcall" and e0[3] == "contains_key" and is_self_field(strip(e0[2]), "strings") and len(e0[4]) == 1 \
                    and self.kind(e0[4][0]) == "key":
                return "TRStrsIsSome (EVar %s)" % q(names_of(strip(e0[4][0]))[0])
            return "TRBool (%s)" % self.boolean(e0)
        if rk == "usize": return "TRNum (%s)" % self.num(e0)
        if rk == "opt_str" and e0[0] == "mcall" and e0[3] == "map" and len(e0[4]) == 1 and self.deref_closure(e0[4][0]):
            k = self.strings_get(e0[2])
            if k: return "TRStrsMap (%s)" % k
        if rk == "strref" and e0[0] == "un" and e0[2] == "*":
            m = strip(e0[3])
            if m[0] == "mcall" and m[3] == "expect" and len(m[4]) == 1 and m[4][0][0] == "strlit":
                k = self.strings_get(m[2])
                if k: return "TRStrsExpect (%s)" % k
        self.lost(e0, "result expression is outside the subset")

    # ---- statements ----
    def block(self, b, tail_returns):
        self.sc.push(); out = self.stmts(b, tail_returns); self.sc.pop(); return out

    def flat_block(self, e, tail_returns):
        self.sc.push(); self.sc.flat += 1
        r = self.stmts(e, tail_returns)
        self.sc.flat -= 1; self.sc.pop()
        return r

    def stmts(self, b, tail_returns):
        out = []
        for st in b[2]:
            out += self.let(st) if st[0] == "let" else self.expr_stmt(st[2], st[1], False)
        t = b[3]
        if t is not None:
            out += self.tail(t) if tail_returns else self.expr_stmt(t, t[1], False)
        return out

    def tail(self, e):
        k = e[0]
        if k == "paren": return self.tail(e[2])
        if k == "block": return self.flat_block(e, True)
        if k == "if" and e[4] is not None:
            els = self.block(e[4], True) if e[4][0] == "block" else self.tail(e[4])
            return [("if", self.boolean(e[2]), self.block(e[3], True), els, e[1])]
        if k == "iflet": return self.expr_stmt(e, e[1], True)
        if k == "match": return self.match(e, None, True)
        if k in ("return", "if") or self.rkind == "unit": return self.expr_stmt(e, e[1], False)
        return [("s", "TReturn (%s)" % self.result(e), e[1])]

    def let(self, st):
        _, ln, pat, ty, init = st
        if pat[0] != "pbind": self.lost(st, "`let` pattern outside the subset")
        x, mut = pat[2], pat[3]
        e = strip(init)
        if e[0] == "mcall" and e[3] == "write" and not e[4]:
            u = strip(e[2])
            # self.map.shards()[i]  =  self.map.shards().get(i).unwrap()   (both panic iff i is out of range; trusted reading:
            # determine_shard returns an index below the shard count)
            if u[0] == "index":
                u = ("mcall", u[1], ("mcall", u[1], u[2], "get", [u[3]]), "unwrap", [])
            if u[0] == "mcall" and u[3] == "unwrap" and not u[4]:
                g = strip(u[2])
                if g[0] == "mcall" and g[3] == "get" and len(g[4]) == 1 and strip(g[2])[0] == "mcall" and strip(g[2])[3] == "shards" \
                        and not strip(g[2])[4] and is_self_field(strip(strip(g[2])[2]), "map"):
                    k = self.kind(g[4][0])
                    if not (k and k.startswith("shardidx:")): self.lost(st, "shard index is not `self.map.determine_shard(<hash> as usize)`")
                    self.sc.bind(x, "shard", ln)
                    return [("s", "TLockShardOf (EVar %s) %s" % (q(k[9:]), q(x)), ln)]
            self.lost(st, "lock statement outside the subset")
        if mut: self.lost(st, "`let mut` outside the subset")
        if e[0] == "match": return self.match(e, x)
        if e[0] == "mcall" and e[3] == "hasher" and not e[4] and is_self_field(strip(e[2]), "map"):
            self.sc.bind(x, "hasher", ln); return []
        if self.is_str(e):
            self.sc.bind(x, "static" if self.is_static(e) else "str", ln); return []
        if e[0] == "mcall" and e[3] == "hash_one" and len(e[4]) == 1 and self.map_hasher(e[2]) and self.is_str(e[4][0]):
            self.sc.bind(x, "hash", ln)
            return [("s", "TLetHash %s" % q(x), ln)]
        if e[0] == "mcall" and e[3] == "determine_shard" and len(e[4]) == 1 and is_self_field(strip(e[2]), "map"):
            a = strip(e[4][0])
            if a[0] == "cast" and a[3] == "usize" and self.kind(a[2]) == "hash":
                self.sc.bind(x, "shardidx:" + names_of(strip(a[2]))[0], ln); return []
            self.lost(st, "determine_shard argument is not `<hash> as usize`")
        if e[0] == "try":
            m = strip(e[2])
            if m[0] == "mcall" and m[3] == "ok_or_else" and len(m[4]) == 1 and m[4][0][0] == "closure" and not m[4][0][2]:
                c = strip(m[2])
                if c[0] == "call" and is_path(c[2], "K", "try_from_usize") and len(c[3]) == 1:
                    f = strip(c[3][0])
                    if f[0] == "mcall" and f[3] == "fetch_add" and is_self_field(strip(f[2]), "key") and len(f[4]) == 2 \
                            and strip(f[4][0])[0] == "lit" and strip(f[4][0])[2] == 1 and is_ordering(f[4][1]):
                        k = self.errkind(m[4][0][3])
                        self.sc.bind(x, "key", ln)
                        return [("s", "TLetKeyFetchAddQ %s %s" % (q(x), k), ln)]
                    self.lost(st, "key is not drawn by `self.key.fetch_add(1, Ordering::_)`")
            if m[0] == "mcall" and m[3] == "store_str" and len(m[4]) == 1 and is_self_field(strip(m[2]), "arena") \
                    and self.is_str(m[4][0]) and not self.is_static(m[4][0]):
                if ty not in (None, "&'static str"): self.lost(st, "type annotation `%s`" % ty)
                self.known.need("LockfreeArena", "store_str", ln)
                self.sc.bind(x, "ref", ln)
                return [("s", "TStoreStrQ %s" % q(x), ln)]
            self.lost(st, "`?` expression outside the subset")
        if ty not in (None, "usize"): self.lost(st, "type annotation `%s`" % ty)
        n = self.num(init)
        self.sc.bind(x, "num", ln)
        return [("s", "TLet %s (%s)" % (q(x), n), ln)]

    def arm(self, body, want_value=True, tail_returns=False):
        """(stmts, value IR) of a match arm: key-valued (want_value), or a statement / tail block"""
        if not want_value:
            if body[0] == "block":
                self.sc.push(); st = self.stmts(body, tail_returns); self.sc.pop(); return st, "EConst 0"
            return (self.tail(body) if tail_returns else self.expr_stmt(body, body[1], False)), "EConst 0"
        if body[0] == "block" and (body[2] or (body[3] is not None and strip(body[3])[0] != "un")):
            st = []
            for s in body[2]:
                st += self.let(s) if s[0] == "let" else self.expr_stmt(s[2], s[1], False)
            if body[3] is None: self.lost(body, "match arm without a value")
            return st, self.key_num(body[3])
        if strip(body)[0] == "return": return self.expr_stmt(strip(body), body[1], False), "EConst 0"
        return [], self.key_num(body)

    def match(self, e, x, tail_returns=False):
        _, ln, scrut, arms = e
        s = strip(scrut)
        if len(arms) != 2 or any(len(a) != 2 for a in arms): self.lost(e, "match needs exactly two unguarded arms")
        wv = x is not None
        pats = {}
        for pat, body in arms:
            if not (pat[0] == "ptuplestruct" and len(pat[3]) == 1 and pat[3][0][0] == "pbind" and not pat[3][0][3]): self.lost(e, "match arm pattern outside the subset")
            pats[tuple(names_of(pat[2]))] = (pat[3][0][2], body, pat[1])
        if s[0] == "mcall" and s[3] == "find_or_find_insert_slot" and len(s[4]) == 3 and self.kind(s[2]) == "shard":
            sh = names_of(strip(s[2]))[0]
            h = self.num(s[4][0])
            eqc, rhc = s[4][1], s[4][2]

            def tup(c): return c[0] == "closure" and len(c[2]) == 1 and isinstance(c[2][0], tuple) and len(c[2][0]) == 2 and c[2][0][1] == "_" and isinstance(c[2][0][0], str)
            okeq = tup(eqc) and strip(eqc[3])[0] == "bin" and strip(eqc[3])[2] == "==" and (
                (strip(strip(eqc[3])[3])[0] == "un" and is_path(strip(strip(strip(eqc[3])[3])[3]), eqc[2][0][0]) and self.is_str(strip(eqc[3])[4])) or
                (strip(strip(eqc[3])[4])[0] == "un" and is_path(strip(strip(strip(eqc[3])[4])[3]), eqc[2][0][0]) and self.is_str(strip(eqc[3])[3])))
            if not okeq: self.lost(e, "the equality closure is not `|(k, _)| *k == <the string>`")
            b = strip(rhc[3]) if tup(rhc) else None
            if not (b and b[0] == "mcall" and b[3] == "hash_one" and len(b[4]) == 1 and is_path(strip(b[4][0]), rhc[2][0][0]) and self.map_hasher(b[2])):
                self.lost(e, "the re-hash closure is not `|(k, _)| self.map.hasher().hash_one(k)`")
            if set(pats) != {("Ok",), ("Err",)}: self.lost(e, "arms are not Ok(bucket) / Err(slot)")
            ob, obody, l1 = pats[("Ok",)]; sl, sbody, l2 = pats[("Err",)]
            self.sc.push(); self.sc.bind(ob, "bucket", l1); occ = self.arm(obody, wv, tail_returns); self.sc.pop()
            self.sc.push(); self.sc.bind(sl, "slot", l2); vac = self.arm(sbody, wv, tail_returns); self.sc.pop()
            if wv: self.sc.bind(x, "key", ln)
            return [("find", x or "_", sh, h, (ob,) + occ, (sl,) + vac, ln)]
        if s[0] == "mcall" and s[3] == "entry" and is_self_field(strip(s[2]), "map") and len(s[4]) == 1 and self.is_static(s[4][0]):
            if set(pats) != {("Entry", "Occupied"), ("Entry", "Vacant")}: self.lost(e, "arms are not Entry::Occupied(o) / Entry::Vacant(v)")
            eo, obody, l1 = pats[("Entry", "Occupied")]; ev, vbody, l2 = pats[("Entry", "Vacant")]
            self.sc.push(); self.sc.bind(eo, "occ", l1); occ = self.arm(obody, wv, tail_returns); self.sc.pop()
            self.sc.push(); self.sc.bind(ev, "vac", l2); vac = self.arm(vbody, wv, tail_returns); self.sc.pop()
            if wv: self.sc.bind(x, "key", ln)
            return [("entry", x or "_", (eo,) + occ, (ev,) + vac, ln)]
        self.lost(e, "`match` on something that is neither <shard>.find_or_find_insert_slot(..) nor self.map.entry(<static str>)")

    def expr_stmt(self, e, ln, tail_returns):
        k = e[0]
        if k == "paren": return self.expr_stmt(e[2], ln, tail_returns)
        if k == "block": return self.flat_block(e, tail_returns)
        if k == "if":
            els = []
            if e[4] is not None:
                els = self.block(e[4], False) if e[4][0] == "block" else self.expr_stmt(e[4], e[4][1], False)
            return [("if", self.boolean(e[2]), self.block(e[3], False), els, e[1])]
        if k == "iflet":
            _, l2, pat, scrut, then, els = e
            if not (pat[0] == "ptuplestruct" and is_path(pat[2], "Some") and len(pat[3]) == 1 and pat[3][0][0] == "pbind" and self.map_get(scrut)):
                self.lost(e, "`if let` is not `if let Some(k) = self.map.get(<the string>)`")
            kv = pat[3][0][2]
            self.sc.push(); self.sc.bind(kv, "refkey", l2); a = self.stmts(then, tail_returns); self.sc.pop()
            b = []
            if els is not None:
                if els[0] != "block": self.lost(els, "`else if` after `if let`")
                b = self.block(els, tail_returns)
            return [("mapget", kv, a, b, l2)]
        if k == "return":
            if e[2] is None: return [("s", "TReturn TRUnit", e[1])]
            return [("s", "TReturn (%s)" % self.result(e[2]), e[1])]
        if k == "macro":
            if e[2] == "verif_point": return []
            self.lost(e, "macro `%s!` is outside the subset" % e[2])
        if k == "mcall":
            recv, name, args = strip(e[2]), e[3], e[4]
            if name == "insert" and is_self_field(recv, "strings") and len(args) == 2:
                kk = self.key_num(args[0])
                if self.is_static(args[1]): return [("s", "TStringsInsertStatic (%s)" % kk, e[1])]
                if self.kind(args[1]) == "ref": return [("s", "TStringsInsertRef (%s) %s" % (kk, q(names_of(strip(args[1]))[0])), e[1])]
                self.lost(e, "strings.insert of something that is neither the stored nor the static string")
            if name == "insert_in_slot" and self.kind(recv) == "shard" and len(args) == 3:
                t = strip(args[2])
                if self.kind(args[1]) == "slot" and t[0] == "tuple" and len(t[2]) == 2 and self.kind(t[2][0]) == "ref" \
                        and strip(t[2][1])[0] == "call" and is_path(strip(t[2][1])[2], "SharedValue", "new") and len(strip(t[2][1])[3]) == 1:
                    return [("s", "TInsertInSlot %s (%s) %s %s (%s)" % (q(names_of(recv)[0]), self.num(args[0]), q(names_of(strip(args[1]))[0]),
                                                                     q(names_of(strip(t[2][0]))[0]), self.key_num(strip(t[2][1])[3][0])), e[1])]
                self.lost(e, "insert_in_slot arguments are not (h, <slot>, (<stored string>, SharedValue::new(<key>)))")
            if name == "insert" and self.kind(recv) == "vac" and len(args) == 1:
                return [("s", "TVacantInsert %s (%s)" % (q(names_of(recv)[0]), self.key_num(args[0])), e[1])]
            if name == "set_max_memory_usage" and is_self_field(recv, "arena") and len(args) == 1:
                self.known.need("LockfreeArena", "set_max_memory_usage", e[1])
                return [("s", "TSetLimit (%s)" % self.num(args[0]), e[1])]
            self.lost(e, "method call statement `.%s(..)` is outside the subset" % name)
        self.lost(e, "statement form `%s` is outside the subset" % k)


def tpp(stmts, ind, rel):
    pad = " " * ind
    if not stmts: return "TSkip"
    items = []
    for s in stmts:
        if s[0] == "s":
            items.append("%s  (* %s:%d *) %s" % (pad, rel, s[2], s[1]))
        elif s[0] == "if":
            items.append("%s  (* %s:%d *) TIf (%s)\n%s    (%s)\n%s    (%s)" % (pad, rel, s[4], s[1], pad, tpp(s[2], ind + 4, rel), pad, tpp(s[3], ind + 4, rel)))
        elif s[0] == "mapget":
            items.append("%s  (* %s:%d *) TIfLetMapGet %s\n%s    (%s)\n%s    (%s)" % (pad, rel, s[4], q(s[1]), pad, tpp(s[2], ind + 4, rel), pad, tpp(s[3], ind + 4, rel)))
        elif s[0] == "find":
            _, x, sh, h, occ, vac, ln = s
            items.append("%s  (* %s:%d *) TLetMatchFind %s %s (%s)\n%s    %s (%s) (%s)\n%s    %s (%s) (%s)" % (
                pad, rel, ln, q(x), q(sh), h, pad, q(occ[0]), tpp(occ[1], ind + 4, rel), occ[2], pad, q(vac[0]), tpp(vac[1], ind + 4, rel), vac[2]))
        else:
            _, x, occ, vac, ln = s
            items.append("%s  (* %s:%d *) TLetMatchEntry %s\n%s    %s (%s) (%s)\n%s    %s (%s) (%s)" % (
                pad, rel, ln, q(x), pad, q(occ[0]), tpp(occ[1], ind + 4, rel), occ[2], pad, q(vac[0]), tpp(vac[1], ind + 4, rel), vac[2]))
    return "tblock [\n" + ";\n".join(items) + " ]"


METHODS = [
    ("try_get_or_intern", "gen_t_try_get_or_intern", ["&self", "T"], "LassoResult<K>", "res_key", ["strlike"]),
    ("get_or_intern", "gen_t_get_or_intern", ["&self", "T"], "K", "key", ["strlike"]),
    ("try_get_or_intern_static", "gen_t_try_get_or_intern_static", ["&self", "&'static str"], "LassoResult<K>", "res_key", ["static"]),
    ("get_or_intern_static", "gen_t_get_or_intern_static", ["&self", "&'static str"], "K", "key", ["static"]),
    ("get", "gen_t_get", ["&self", "T"], "Option<K>", "opt_key", ["strlike"]),
    ("contains", "gen_t_contains", ["&self", "T"], "bool", "bool", ["strlike"]),
    ("contains_key", "gen_t_contains_key", ["&self", "&K"], "bool", "bool", ["key"]),
    ("resolve", "gen_t_resolve", ["&'a self", "&K"], "&'a str", "strref", ["key"]),
    ("try_resolve", "gen_t_try_resolve", ["&'a self", "&K"], "Option<&'a str>", "opt_str", ["key"]),
    ("len", "gen_t_len", ["&self"], "usize", "usize", []),
    ("is_empty", "gen_t_is_empty", ["&self"], "bool", "bool", []),
    ("set_memory_limits", "gen_t_set_memory_limits", ["&self", "MemoryLimits"], None, "unit", ["limits"]),
    ("current_memory_usage", "gen_t_current_memory_usage", ["&self"], "usize", "usize", []),
    ("max_memory_usage", "gen_t_max_memory_usage", ["&self"], "usize", "usize", []),
]


def run(repo, out):
    rel = "src/threaded_rodeo.rs"
    path = os.path.join(repo, rel)
    known = Known()
    try:
        parser, items = rsparse.parse_file(path)
        st = [i for i in items if i[0] == "struct" and i[3] == "ThreadedRodeo"]
        if len(st) != 1 or dict(st[0][4] or []) != FIELDS or len(st[0][4]) != 4 or any(a.startswith("cfg") for a in st[0][2]):
            raise Lost(st[0][1] if st else 1, "struct ThreadedRodeo does not have exactly the fields %s" % FIELDS)
        fns = {}
        for i in items:
            if i[0] == "impl" and i[3]["trait"] is None and i[3]["self"].startswith("ThreadedRodeo<"):
                if any(a.startswith("cfg") for a in i[2]): raise Lost(i[1], "conditionally compiled `impl ThreadedRodeo`")
                for f in i[4]:
                    if f[0] == "fn": fns.setdefault(f[3], []).append(f)

        def unique(name, params, ret):
            c = fns.get(name, [])
            if len(c) != 1: raise Lost(1, "expected exactly one method `%s`, found %d" % (name, len(c)))
            f = c[0]
            if any(a.startswith("cfg(") for a in f[2]): raise Lost(f[1], "conditionally compiled `fn %s`" % name)
            if [t for _, t in f[4]] != params or f[5] != ret or [x for x in f[8] if x != "const"]:
                raise Lost(f[1], "signature of `%s` is not (%s) -> %s" % (name, ", ".join(params), ret))
            return f
        env = {"accessors": set()}
        f = unique("len", ["&self"], "usize")
        b = strip(parser.fn_body(f))
        if b[0] == "mcall" and b[3] == "len" and not b[4] and is_self_field(strip(b[2]), "strings"): env["accessors"].add("len")
        parts = []
        import astx
        inlined = set()
        KEEP = {("ThreadedRodeo", "len"), ("ThreadedRodeo", "get"), ("ThreadedRodeo", "try_get_or_intern"),
                ("ThreadedRodeo", "try_get_or_intern_static"), ("ThreadedRodeo", "verif_shard_of")}
        keep = lambda ty, name, node: (ty, name) in KEEP
        for name, gen, params, ret, rk, kinds in METHODS:
            f = unique(name, params, ret)
            env["as_ref_nodes"] = {}
            fnl = TFn(rk, known, env)
            ps = []
            for (p, _t), kd in zip([x for x in f[4] if x[0] != "self"], kinds):
                fnl.sc.bind(p, kd, f[1])
                if kd in ("key", "limits"): ps.append(p)
            body, inl = astx.prepare(parser, items, f, "ThreadedRodeo", keep, adjacent_methods=("fetch_add",))
            inlined.update(inl)
            stl = fnl.stmts(body, True)
            if rk == "unit": stl.append(("s", "TReturn TRUnit", f[7]))
            parts.append("(* %s:%d-%d  fn %s *)\nDefinition %s : tfundef := mkTFun [%s]\n  (%s).\n" % (
                rel, f[1], f[7], name, gen, "; ".join(q(p) for p in ps), tpp(stl, 2, rel)))
    except Lost as e:
        if not getattr(e, "file", None): e.file = path
        raise
    hdr = """(* ThreadedGen.v -- GENERATED by rust2coq.py from %s
   DO NOT EDIT: regenerated on every run.  Terms of the IR of GenIRThreaded.v.  ONE-THREAD VIEW: DashMap operations are
   the primitives listed there, every lock is free, orderings are ignored, verif_point!(..) is nothing.
   Callees replaced by their specification: %s
   Private helpers of the source file inlined before lowering (astx.py): %s *)
From Lasso Require Import Base Arena Rodeo.
From LassoGen Require Import GenPrelude GenIR GenIRRodeo GenIRThreaded.
Open Scope string_scope.
Open Scope N_scope.

""" % (path, ", ".join(sorted(set("%s::%s" % (t, n) for t, n, _ in known.needs))), ", ".join(sorted(inlined)) or "none")
    tail = "\n#[global] Hint Unfold %s : arenagen.\n" % " ".join(g for _, g, _, _, _, _ in METHODS)
    open(os.path.join(out, "ThreadedGen.v"), "w").write(hdr + "\n".join(parts) + tail)
    print("rust2coq: threaded: %d definitions -> %s" % (len(METHODS), os.path.join(out, "ThreadedGen.v")))
