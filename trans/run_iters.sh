#!/bin/sh
# run_iters.sh <repo> <workdir> -- `prop.sh iters <repo> <workdir>` (exit 0 iff everything is proved)
exec "$(dirname "$0")/prop.sh" iters "$@"
