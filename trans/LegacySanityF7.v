(* LegacySanityF7.v -- HAND-WRITTEN sanity check, compiled by sanity_f7.sh against scratch copies of bucket.rs /
   single_threaded.rs from BEFORE commit 784e567 (unchecked Layout); NOT expected to compile against the current
   source.  These are the former witnesses of ArenaFindings.v: with capacity 2^63 the obligation
   "size <= isize::MAX" of Layout::from_size_align_unchecked is violated. *)
From Lasso Require Import Base Arena ArenaProofs.
From LassoGen Require Import GenPrelude GenIR GenRequest GenTactics ArenaGen.
Open Scope N_scope.

Ltac refute_obligations :=
  unfold run_wc, run_new, wc_spec in *; repeat autounfold with arenagen in *; unfold isize_max in *; norm_pow;
  repeat (cbn; unfold wc_spec, isize_max);
  unfold_props; norm_pow; cbn;
  let H := fresh in intros H; split_hyps; lia.

Theorem f7_with_capacity_layout_obligation_fails :
  let cap := 2 ^ 63 in wc_pre cap /\ ~ snd (run_wc gen_with_capacity 0 cap).
Proof.
  cbv zeta. split; [unfold wc_pre, usize_max; norm_pow; lia|]. refute_obligations.
Qed.

(* and the unchecked form never refuses *)
Theorem f7_with_capacity_never_refuses : forall id cap,
  fst (run_wc gen_with_capacity id cap) = Some (Ok (fresh_block id cap)).
Proof. gen_arena_tac. Qed.

Print Assumptions f7_with_capacity_layout_obligation_fails.
Print Assumptions f7_with_capacity_never_refuses.
