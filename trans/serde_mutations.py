#!/usr/bin/env python3
"""serde_mutations.py <repo> <scratch> -- the mutation table of the serde chain.
For every edit: copy <repo>/src to <scratch>/<n>/src, apply the edit (it must change the file), run
`prop.sh serde <scratch>/<n> <scratch>/<n>/w`, and compare the outcome with the expectation.
Prints one line per edit  `<ok|WRONG> <name>: <outcome> (expected <..>)`  and exits 0 iff every line is ok."""
import os, re, shutil, subprocess, sys

HERE = os.path.dirname(os.path.abspath(__file__))


def sub1(text, old, new, count=1):
    assert text.count(old) >= 1, "pattern not found: %r" % old
    return text.replace(old, new, count)


ERR_ARM = """                RawEntryMut::Occupied(..) => {
                    return Err(serde::de::Error::custom(
                        "found a duplicated string while deserializing",
                    ));
                }"""
CAP_BLOCK = """        let capacity = {
            let total_bytes = vector.iter().map(|s| s.len()).sum::<usize>();
            let total_bytes =
                NonZeroUsize::new(total_bytes).unwrap_or_else(|| Capacity::default().bytes());

            Capacity::new(vector.len(), total_bytes)
        };
"""
CAP_FLAT = """        let total = vector.iter().map(|s| s.len()).sum::<usize>();
        let nonzero = NonZeroUsize::new(total).unwrap_or_else(|| Capacity::default().bytes());
        let capacity = Capacity::new(vector.len(), nonzero);
"""
PUSH = "                    strings.push(allocated);\n"
HASH = "            let hash = hasher.hash_one(allocated);\n"
KEYLET = """                    let key =
                        K::try_from_usize(key).expect("failed to create key while deserializing");
"""


def de_region(t):
    """(start, end) of the impl Deserialize block of the file"""
    a = t.index("impl<'de, K: Key")
    b = t.index("#[cfg(test)]", a)
    return a, b


def in_de(f):
    def g(t):
        a, b = de_region(t)
        return t[:a] + f(t[a:b]) + t[b:]
    return g


def rename(t):
    for old, new in (("vector", "document"), ("allocated", "copy"), ("total_bytes", "tb"), ("capacity", "cap_"), ("hasher", "bh"),
                     ("strings", "strs"), ("arena", "ar"), ("entry", "slot"), ("hash", "hv"), ("string", "text"), ("map", "table")):
        t = re.sub(r"(?<![A-Za-z0-9_.:])%s(?![A-Za-z0-9_(])" % old, new, t)
    # the field names of Self { .. } were shorthand: give them back
    t = t.replace("            table,\n            bh,\n            strs,\n            ar,\n", "            map: table,\n            hasher: bh,\n            strings: strs,\n            arena: ar,\n")
    t = t.replace("cap_.strs", "cap_.strings")
    return t.replace("for (key, text)", "for (position, text)").replace("K::try_from_usize(key)", "K::try_from_usize(position)")


EDITS = [
    # name, file, edit, expected outcomes
    ("baseline", None, None, {"PROVED"}),
    ("occupied arm: `continue` instead of the error (F5)", "rodeo.rs", in_de(lambda t: sub1(t, ERR_ARM, "                RawEntryMut::Occupied(..) => {\n                    continue;\n                }")), {"FAILED", "LOST"}),
    ("occupied arm: empty (skip)", "rodeo.rs", in_de(lambda t: sub1(t, ERR_ARM, "                RawEntryMut::Occupied(..) => {}")), {"FAILED", "LOST"}),
    ("occupied arm skips, in reader.rs", "reader.rs", in_de(lambda t: sub1(t, ERR_ARM, "                RawEntryMut::Occupied(..) => {\n                    continue;\n                }")), {"FAILED", "LOST"}),
    ("K::try_from_usize(key + 1)", "rodeo.rs", in_de(lambda t: sub1(t, "K::try_from_usize(key)", "K::try_from_usize(key + 1)")), {"FAILED", "LOST"}),
    ("strings.push moved before the probe", "rodeo.rs", in_de(lambda t: sub1(sub1(t, PUSH, ""), HASH, HASH + "            strings.push(allocated);\n")), {"FAILED", "LOST"}),
    ("key creation moved before the probe (panic before the duplicate error)", "rodeo.rs",
     in_de(lambda t: sub1(sub1(t, KEYLET, ""), HASH, HASH + "            let key = K::try_from_usize(key).expect(\"failed to create key while deserializing\");\n")), {"FAILED", "LOST"}),
    ("total_bytes fallback dropped (.unwrap())", "rodeo.rs", in_de(lambda t: sub1(t, ".unwrap_or_else(|| Capacity::default().bytes())", ".unwrap()")), {"FAILED", "LOST"}),
    ("Arena::new(capacity.bytes, capacity.bytes.get())", "rodeo.rs", in_de(lambda t: sub1(t, "Arena::new(capacity.bytes, usize::MAX)", "Arena::new(capacity.bytes, capacity.bytes.get())")), {"FAILED", "LOST"}),
    ("vector.into_iter().rev().enumerate()", "rodeo.rs", in_de(lambda t: sub1(t, "vector.into_iter().enumerate()", "vector.into_iter().rev().enumerate()")), {"FAILED", "LOST"}),
    ("resolver: push dropped", "resolver.rs", in_de(lambda t: sub1(t, "            strings.push(allocated);\n", "")), {"FAILED", "LOST"}),
    ("resolver: for string in vector.into_iter().rev()", "resolver.rs", in_de(lambda t: sub1(t, "for string in vector {", "for string in vector.into_iter().rev() {")), {"FAILED", "LOST"}),
    ("self.strings[1..].serialize", "rodeo.rs", lambda t: sub1(t, "self.strings.serialize(serializer)", "self.strings[1..].serialize(serializer)"), {"FAILED", "LOST"}),
    ("self.strings.iter().rev().collect::<Vec<_>>().serialize", "rodeo.rs", lambda t: sub1(t, "self.strings.serialize(serializer)", "self.strings.iter().rev().collect::<Vec<_>>().serialize(serializer)"), {"FAILED", "LOST"}),
    ("threaded serialize: keys and values swapped", "threaded_rodeo.rs", lambda t: sub1(t, "map.insert(*entry.key(), entry.value().to_owned());", "map.insert(entry.value().to_owned(), *entry.key());"), {"FAILED", "LOST"}),
    ("threaded de: key check removed (F4)", "threaded_rodeo.rs", lambda t: t[:t.index("        let mut seen_keys = vec![false")] + t[t.index("        let capacity = {", t.index("        let mut seen_keys = vec![false")):], {"FAILED", "LOST"}),
    ("threaded de: guard `if *seen` (negation dropped)", "threaded_rodeo.rs", lambda t: sub1(t, "Some(seen) if !*seen => *seen = true,", "Some(seen) if *seen => *seen = true,"), {"FAILED", "LOST"}),
    ("threaded de: `>` instead of `>=`", "threaded_rodeo.rs", lambda t: sub1(t, "if key.into_usize() >= next_key {", "if key.into_usize() > next_key {"), {"FAILED", "LOST"}),
    ("threaded de: counter = highest key, not + 1 (F3)", "threaded_rodeo.rs", lambda t: sub1(t, "next_key = key.into_usize() + 1;", "next_key = key.into_usize();"), {"FAILED", "LOST"}),
    ("threaded de: strings.insert dropped", "threaded_rodeo.rs", lambda t: sub1(t, "            strings.insert(key, allocated);\n", ""), {"FAILED", "LOST"}),
    ("threaded de: AtomicUsize::new(next_key + 1)", "threaded_rodeo.rs", lambda t: sub1(t, "key: AtomicUsize::new(next_key),", "key: AtomicUsize::new(next_key + 1),"), {"FAILED", "LOST"}),
    ("threaded de: the two inserts in the other order", "threaded_rodeo.rs", lambda t: sub1(sub1(t, "            map.insert(allocated, key);\n", ""), "            strings.insert(key, allocated);\n", "            strings.insert(key, allocated);\n            map.insert(allocated, key);\n"), {"PROVED"}),
    ("threaded de: counter bumped after the inserts", "threaded_rodeo.rs", lambda t: sub1(sub1(t, """            if key.into_usize() >= next_key {
                next_key = key.into_usize() + 1;
            }
""", ""), "            strings.insert(key, allocated);\n", """            strings.insert(key, allocated);
            if key.into_usize() >= next_key {
                next_key = key.into_usize() + 1;
            }
"""), {"PROVED"}),
    ("comments and attributes", "rodeo.rs", in_de(lambda t: sub1(sub1(sub1(t, HASH, "            // hash the copy\n            /* not the string */\n" + HASH), "        Ok(Self {", "        /* done */\n        Ok(Self {"),
                                                                 "    #[cfg_attr(feature = \"inline-more\", inline)]\n    fn deserialize", "    #[inline]\n    #[allow(clippy::all)]\n    fn deserialize")), {"PROVED"}),
    ("an attribute on a statement inside the body (rsparse refuses those in every chain)", "rodeo.rs", in_de(lambda t: sub1(t, HASH, "            #[allow(unused)]\n" + HASH)), {"LOST"}),
    ("renamed locals", "rodeo.rs", in_de(rename), {"PROVED"}),
    ("capacity block flattened into plain lets", "rodeo.rs", in_de(lambda t: sub1(t, CAP_BLOCK, CAP_FLAT)), {"PROVED"}),
    ("hasher created after strings/map/arena", "rodeo.rs", in_de(lambda t: sub1(sub1(t, "        let hasher: S = Default::default();\n", ""), "        for (key, string)", "        let hasher: S = Default::default();\n\n        for (key, string)")), {"PROVED"}),
    ("hasher created before the capacity", "rodeo.rs", in_de(lambda t: sub1(sub1(t, "        let hasher: S = Default::default();\n", ""), "        let capacity = {", "        let hasher: S = Default::default();\n        let capacity = {")), {"PROVED"}),
]


def main():
    repo, scratch = sys.argv[1], sys.argv[2]
    bad = 0
    for n, (name, fname, edit, expect) in enumerate(EDITS):
        d = os.path.join(scratch, str(n))
        shutil.rmtree(d, ignore_errors=True)
        os.makedirs(d)
        shutil.copytree(os.path.join(repo, "src"), os.path.join(d, "src"))
        if fname:
            p = os.path.join(d, "src", fname)
            t = open(p).read(); t2 = edit(t)
            assert t2 != t, "edit %r changed nothing" % name
            open(p, "w").write(t2)
        r = subprocess.run([os.path.join(HERE, "prop.sh"), "serde", d, os.path.join(d, "w")], stdout=subprocess.PIPE, stderr=subprocess.STDOUT, universal_newlines=True)
        lines = r.stdout.splitlines()
        failed = [l.split()[1] for l in lines if l.startswith("FAILED")]
        lost = [l for l in lines if l.startswith("LOST")]
        if r.returncode == 0: outcome, detail = "PROVED", ""
        elif r.returncode == 1: outcome, detail = "FAILED", " ".join(failed)
        elif r.returncode == 3: outcome, detail = "LOST", lost[0][5:] if lost else ""
        else: outcome, detail = "ERROR", " | ".join(lines[-3:])
        ok = outcome in expect
        bad += not ok
        print("%s | %s | %s | %s | expected %s" % ("ok" if ok else "WRONG", name, outcome, detail.replace(d + "/", ""), "/".join(sorted(expect))))
        sys.stdout.flush()
    sys.exit(1 if bad else 0)


if __name__ == "__main__":
    main()
