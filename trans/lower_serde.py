#!/usr/bin/env python3
"""lower_serde.py -- the serde impls (feature "serialize") of src/rodeo.rs, src/reader.rs, src/resolver.rs,
src/threaded_rodeo.rs -> SerdeGen.v (GenIRSerde.v).

  impl Deserialize for Rodeo / RodeoReader / RodeoResolver:   fn deserialize(deserializer: D) -> Result<Self, D::Error> must be
        <prelude lets>   for (idx, s) in vector.into_iter().enumerate() { BODY }   Ok(Self { .. })
     (RodeoResolver: `for s in vector`).  The prelude is evaluated SYMBOLICALLY: every statement must be a `let` (possibly
     `let x = { lets; tail }`) binding one of
        doc       Vec::deserialize(<the parameter>)?                                    [type annotation Vec<String>]
        sum       <doc>.iter().map(|s| s.len()).sum()
        bytes     NonZeroUsize::new(<sum>).unwrap_or_else(|| Capacity::default().bytes())   -> BSumOrDefault
                  NonZeroUsize::new(<sum>).unwrap()                                          -> BSumUnwrap
        cap       Capacity::new(<doc>.len(), <bytes>)
        hasher    Default::default()                                                     [type annotation = the hasher parameter]
        strings   Vec::with_capacity(<cap>.strings)
        map       HashMap::with_capacity_and_hasher(<cap>.strings, ())
        arena     Arena::new(<cap>.bytes, usize::MAX | <cap>.bytes.get()).expect("..")
     so local names, the nesting of the capacity block and the order of the (pure) lets are free; anything else is LOST.
     BODY is emitted statement by statement in SOURCE ORDER as a GenIRSerde.dstmt (the forms are quoted there); anything else
     is LOST.  The final expression must build Self from exactly those locals.
  impl Serialize for Rodeo / RodeoReader / RodeoResolver: the body must be exactly `self.strings.serialize(<the parameter>)`.
  impl Serialize for ThreadedRodeo: exactly
        let mut map = HashMap::with_capacity(self.map.len());
        for entry in self.map.iter() { map.insert(*entry.key(), entry.value().to_owned()); }
        map.serialize(<the parameter>)
  impl Deserialize for ThreadedRodeo:  <prelude lets, symbolically, plus the key check in exactly its shape or absent>
        for (string, key) in <document> { BODY }   Ok(Self { map, strings, key: AtomicUsize::new(<counter>), arena })
     BODY: the statements of GenIRSerde.tstmt in source order; anything else is LOST.
"""
import os
import rsparse
from rsparse import Lost
from lower_arena import strip, names_of, is_path, is_self_field, q
from lower_rodeo import eq_closure, rehash_closure

STRINGS_TY = "Vec<&'static str>"


def one_name(e):
    e = strip(e)
    if e[0] == "path" and len(names_of(e)) == 1: return names_of(e)[0]
    return None


def deref(e):
    """x / &x / &mut x -> x"""
    e = strip(e)
    if e[0] == "ref": e = strip(e[3])
    return e


class Env:
    def __init__(self, parent=None):
        self.parent = parent; self.tab = {}

    def get(self, name):
        e = self
        while e is not None:
            if name in e.tab: return e.tab[name]
            e = e.parent
        return None

    def of(self, e):
        n = one_name(e)
        return self.get(n) if n else None


def expect_str(e, what, ln):
    """X.expect("..") -> X"""
    e = strip(e)
    if e[0] == "mcall" and e[3] == "expect" and len(e[4]) == 1 and strip(e[4][0])[0] == "strlit": return strip(e[2])
    raise Lost(ln, "%s is not followed by .expect(\"..\")" % what)


# ---------------------------------------------------------------- prelude
def sym_value(e, env, ty, param, ln):
    """the symbolic value of a prelude initialiser, or Lost"""
    e0 = e
    if e[0] == "block" and (e[2] or e[3] is None):
        if len(e) > 4 and e[4] is True and e[2]: raise Lost(ln, "unsafe block with statements in the prelude")
        inner = Env(env)
        for s in e[2]:
            prelude_let(s, inner, param)
        if e[3] is None: raise Lost(ln, "block without a value in the prelude")
        return sym_value(e[3], inner, None, param, e[3][1])
    e = strip(e)
    # Vec::deserialize(deserializer)?
    if e[0] == "try":
        c = strip(e[2])
        if c[0] == "call" and is_path(c[2], "Vec", "deserialize") and len(c[3]) == 1 and is_path(strip(c[3][0]), param):
            if ty != "Vec<String>": raise Lost(ln, "the document is not read as `Vec<String>`")
            return ("doc",)
        raise Lost(ln, "`?` expression in the prelude is not Vec::deserialize(%s)?" % param)
    if e[0] == "mcall":
        # <doc>.iter().map(|s| s.len()).sum()
        if e[3] == "sum" and not e[4]:
            m = strip(e[2])
            if m[0] == "mcall" and m[3] == "map" and len(m[4]) == 1:
                it = strip(m[2]); c = strip(m[4][0])
                okc = c[0] == "closure" and len(c[2]) == 1 and isinstance(c[2][0], str) and strip(c[3])[0] == "mcall" \
                    and strip(c[3])[3] == "len" and not strip(c[3])[4] and is_path(strip(strip(c[3])[2]), c[2][0])
                if okc and it[0] == "mcall" and it[3] in ("iter", "keys") and not it[4] and env.of(it[2]) == ("doc",):
                    return ("sum",)
            raise Lost(ln, "`.sum()` is not <document>.iter().map(|s| s.len()).sum()")
        # NonZeroUsize::new(<sum>).unwrap_or_else(|| Capacity::default().bytes()) / .unwrap()
        if e[3] in ("unwrap_or_else", "unwrap", "unwrap_or", "expect"):
            c = strip(e[2])
            if c[0] == "call" and is_path(c[2], "NonZeroUsize", "new") and len(c[3]) == 1:
                if env.of(c[3][0]) != ("sum",): raise Lost(ln, "NonZeroUsize::new is not given the sum of the lengths")
                if e[3] == "unwrap" and not e[4]: return ("bytes", "BSumUnwrap")
                if e[3] == "unwrap_or_else" and len(e[4]) == 1:
                    cl = strip(e[4][0])
                    if cl[0] == "closure" and not cl[2]:
                        d = strip(cl[3])
                        if d[0] == "mcall" and d[3] == "bytes" and not d[4] and strip(d[2])[0] == "call" \
                                and is_path(strip(d[2])[2], "Capacity", "default") and not strip(d[2])[3]:
                            return ("bytes", "BSumOrDefault")
                raise Lost(ln, "the fallback of NonZeroUsize::new(..) is not `.unwrap_or_else(|| Capacity::default().bytes())`")
            if e[3] == "expect":
                a = strip(e[2])
                if a[0] == "call" and is_path(a[2], "Arena", "new") and len(a[3]) == 2 and len(e[4]) == 1 and strip(e[4][0])[0] == "strlit":
                    b, m = strip(a[3][0]), strip(a[3][1])
                    if not (b[0] == "field" and b[3] == "bytes" and (env.of(b[2]) or ("?",))[0] == "cap"):
                        raise Lost(ln, "Arena::new is not given <capacity>.bytes")
                    cap = env.of(b[2])
                    if is_path(m, "usize", "MAX"): lim = "DLimUsizeMax"
                    elif m[0] == "mcall" and m[3] == "get" and not m[4] and strip(m[2])[0] == "field" and strip(m[2])[3] == "bytes" \
                            and env.of(strip(m[2])[2]) == cap: lim = "DLimBytes"
                    else: raise Lost(ln, "the memory limit given to Arena::new is outside the subset")
                    return ("arena", cap[1], lim)
            raise Lost(ln, "`.%s(..)` in the prelude is outside the subset" % e[3])
    if e[0] == "call":
        f = e[2]
        if is_path(f, "Capacity", "new") and len(e[3]) == 2:
            a, b = strip(e[3][0]), strip(e[3][1])
            bv = env.of(b)
            if a[0] == "mcall" and a[3] == "len" and not a[4] and env.of(a[2]) == ("doc",) and bv and bv[0] == "bytes":
                return ("cap", bv[1])
            raise Lost(ln, "Capacity::new is not given (<document>.len(), <bytes>)")
        if is_path(f, "Default", "default") and not e[3]:
            if ty is None: raise Lost(ln, "Default::default() without a type annotation")
            return ("hasher", ty)
        if is_path(f, "Vec", "with_capacity") and len(e[3]) == 1:
            a = strip(e[3][0])
            if a[0] == "field" and a[3] == "strings" and (env.of(a[2]) or ("?",))[0] == "cap": return ("strings",)
            raise Lost(ln, "Vec::with_capacity is not given <capacity>.strings")
        if f[0] == "path" and names_of(f)[-1] == "with_capacity_and_hasher" and names_of(f)[0] in ("HashMap", "StringMap") and len(e[3]) == 2:
            a, u = strip(e[3][0]), strip(e[3][1])
            if a[0] == "field" and a[3] == "strings" and (env.of(a[2]) or ("?",))[0] == "cap" and u[0] == "tuple" and not u[2]: return ("map",)
            raise Lost(ln, "HashMap::with_capacity_and_hasher is not given (<capacity>.strings, ())")
    raise Lost(ln, "initialiser in the prelude of deserialize is outside the subset")


def prelude_let(s, env, param):
    if s[0] != "let" or s[2][0] != "pbind" or s[4] is None:
        raise Lost(s[1], "statement in front of the loop of deserialize is not a plain `let`")
    v = sym_value(s[4], env, s[3], param, s[1])
    env.tab[s[2][2]] = v


# ---------------------------------------------------------------- loop body
def nexpr(e, sc, ln):
    e = strip(e)
    if e[0] == "lit": return "(NLit %d)" % e[2]
    n = one_name(e)
    if n and sc.get(n) in ("idx", "num"): return "(NVar %s)" % q(n)
    if e[0] == "bin" and e[2] == "+": return "(NAdd %s %s)" % (nexpr(e[3], sc, ln), nexpr(e[4], sc, ln))
    raise Lost(ln, "argument of K::try_from_usize is outside the subset")


class Body:
    def __init__(self, env, rel):
        self.env = env; self.rel = rel

    def role(self, e, sc):
        """what a one-name expression denotes: a prelude value kind (strings, map, arena, hasher) or a body kind"""
        n = one_name(deref(e))
        if n is None: return None
        k = sc.get(n)
        if k is not None: return k
        v = self.env.get(n)
        return v[0] if v else None

    def is_the_string(self, e, sc):
        return self.role(e, sc) in ("str", "copy")

    def block(self, b, sc):
        if b[0] != "block": return self.stmts([("expr", b[1], b, False)], sc)
        ss = list(b[2])
        if b[3] is not None: ss.append(("expr", b[3][1], b[3], False))
        return self.stmts(ss, Env(sc))

    def stmts(self, ss, sc):
        out = []
        for s in ss:
            out.append("(* %s:%d *) %s" % (self.rel, s[1], self.stmt(s, sc)))
        return "(dblock [ %s ])" % ";\n      ".join(out) if out else "(dblock [])"

    def stmt(self, s, sc):
        ln = s[1]
        if s[0] == "let":
            if s[2][0] != "pbind" or s[4] is None: raise Lost(ln, "`let` with a pattern in the loop body")
            x = s[2][2]; e = strip(s[4])
            if e[0] == "mcall" and e[3] == "expect":
                r = expect_str(e, "the call", ln)
                if r[0] == "mcall" and r[3] == "store_str" and len(r[4]) == 1:
                    a = strip(r[4][0])
                    if self.role(r[2], sc) == "arena" and a[0] == "ref" and not a[2] and sc.get(one_name(a[3]) or "") == "str":
                        sc.tab[x] = "copy"; return "DStoreExpect %s" % q(x)
                    raise Lost(ln, "store_str is not <arena>.store_str(&<the string>)")
                if r[0] == "call" and is_path(r[2], "K", "try_from_usize") and len(r[3]) == 1:
                    ne = nexpr(r[3][0], sc, ln)
                    sc.tab[x] = "num"; return "DLetKeyExpect %s %s" % (q(x), ne)
                raise Lost(ln, "`.expect(..)` in the loop body is on neither store_str nor K::try_from_usize")
            if e[0] == "mcall" and e[3] == "hash_one" and len(e[4]) == 1 and self.role(e[2], sc) == "hasher" and self.is_the_string(e[4][0], sc):
                sc.tab[x] = "num"; return "DLetHash %s" % q(x)
            if e[0] == "mcall" and e[3] == "from_hash" and len(e[4]) == 2:
                m = strip(e[2]); h = one_name(e[4][0])
                if m[0] == "mcall" and m[3] == "raw_entry_mut" and not m[4] and self.role(m[2], sc) == "map" and h and sc.get(h) == "num" \
                        and eq_closure(e[4][1], lambda v: self.role(v, sc) == "strings", lambda t: self.is_the_string(t, sc)):
                    sc.tab[x] = "entry"; return "DProbe %s %s" % (q(x), q(h))
                raise Lost(ln, "the table probe is not <map>.raw_entry_mut().from_hash(<hash>, |key| <copy> == index_unchecked!(<strings>, key.into_usize()))")
            raise Lost(ln, "`let` in the loop body is outside the subset")
        if s[0] != "expr": raise Lost(ln, "statement in the loop body is outside the subset")
        e = strip(s[2])
        if e[0] == "continue": return "DContinue"
        if e[0] == "return":
            r = strip(e[2]) if e[2] is not None else None
            if r and r[0] == "call" and is_path(r[2], "Err") and len(r[3]) == 1:
                c = strip(r[3][0])
                if c[0] == "call" and c[2][0] == "path" and names_of(c[2])[-2:] == ["Error", "custom"] and len(c[3]) == 1 and strip(c[3][0])[0] == "strlit":
                    return "DReturnErr"
            raise Lost(ln, "`return` in the loop body is not return Err(serde::de::Error::custom(\"..\"))")
        if e[0] == "match":
            en = one_name(e[2])
            if not en or sc.get(en) != "entry" or len(e[3]) != 2: raise Lost(ln, "`match` in the loop body is not on the raw entry with two arms")
            occ = vac = None
            for pat, arm in e[3]:
                if isinstance(pat, tuple) and pat[0] == "ptuplestruct" and len(pat[3]) == 1:
                    pn = names_of(pat[2])
                    if pn == ["RawEntryMut", "Occupied"] and pat[3][0][0] in ("prest", "pwild") and occ is None:
                        occ = self.block(arm, sc); continue
                    if pn == ["RawEntryMut", "Vacant"] and pat[3][0][0] == "pbind" and vac is None:
                        inner = Env(sc); inner.tab[pat[3][0][2]] = "vac"
                        ev = pat[3][0][2]
                        vac = self.block(arm, inner); continue
                raise Lost(pat[1] if isinstance(pat, tuple) and len(pat) > 1 and isinstance(pat[1], int) else ln,
                           "match arm is neither RawEntryMut::Occupied(..) nor RawEntryMut::Vacant(<entry>)")
            if occ is None or vac is None: raise Lost(ln, "the match on the raw entry lacks an arm")
            return "DMatchEntry %s\n      %s\n      %s %s" % (q(en), occ, q(ev), vac)
        if e[0] == "mcall" and e[3] == "push" and len(e[4]) == 1 and self.role(e[2], sc) == "strings":
            x = one_name(e[4][0])
            if x and sc.get(x) == "copy": return "DPush %s" % q(x)
            raise Lost(ln, "what is pushed is not the copy returned by store_str")
        if e[0] == "mcall" and e[3] == "insert_with_hasher" and len(e[4]) == 4:
            ev, h, k = one_name(e[2]), one_name(e[4][0]), one_name(e[4][1])
            u = strip(e[4][2])
            if ev and sc.get(ev) == "vac" and h and sc.get(h) == "num" and k and sc.get(k) == "num" and u[0] == "tuple" and not u[2] \
                    and rehash_closure(e[4][3], lambda v: self.role(v, sc) == "strings", lambda hh: self.role(hh, sc) == "hasher"):
                return "DInsert %s %s %s" % (q(ev), q(h), q(k))
            raise Lost(ln, "the insertion is not <vacant>.insert_with_hasher(<hash>, <key>, (), |key| <hasher>.hash_one(index_unchecked!(<strings>, key.into_usize())))")
        if e[0] == "block": raise Lost(ln, "nested block in the loop body")
        raise Lost(ln, "statement in the loop body is outside the subset")


# ---------------------------------------------------------------- one type
def find_impl(items, trait_prefix, ty, path):
    c = [i for i in items if i[0] == "impl" and i[3]["trait"] and (i[3]["trait"] == trait_prefix or i[3]["trait"].startswith(trait_prefix + "<"))
         and i[3]["self"].startswith(ty + "<")]
    if len(c) != 1: raise Lost(1, "expected exactly one `impl %s for %s`, found %d" % (trait_prefix, ty, len(c)))
    fns = [f for f in c[0][4] if f[0] == "fn"]
    want = "deserialize" if trait_prefix == "Deserialize" else "serialize"
    if len(fns) != 1 or fns[0][3] != want: raise Lost(c[0][1], "impl %s for %s does not consist of `fn %s`" % (trait_prefix, ty, want))
    return c[0], fns[0]


def struct_fields(items, ty):
    st = [i for i in items if i[0] == "struct" and i[3] == ty]
    if len(st) != 1: raise Lost(1, "expected exactly one `struct %s`" % ty)
    return st[0], dict(st[0][4] or [])


def lower_deser(parser, items, ty, rel, gen, with_table):
    imp, f = find_impl(items, "Deserialize", ty, rel)
    if len(f[4]) != 1 or f[4][0][0] == "self": raise Lost(f[1], "signature of deserialize is not (deserializer: D)")
    param = f[4][0][0]
    if (f[5] or "").replace(" ", "") != "Result<Self,D::Error>": raise Lost(f[1], "deserialize does not return Result<Self, D::Error>")
    body = parser.fn_body(f)
    env = Env()
    loop = None
    for s in body[2]:
        if s[0] == "expr" and s[2][0] == "for":
            if loop is not None: raise Lost(s[1], "a second loop in deserialize")
            loop = s[2]; continue
        if loop is not None: raise Lost(s[1], "statement between the loop and the final Ok(..) is outside the subset")
        prelude_let(s, env, param)
    if loop is None: raise Lost(f[1], "deserialize has no `for` loop")
    pat, it = loop[2], strip(loop[3])
    sc = Env()
    if with_table:
        ok = pat[0] == "ptuple" and len(pat[2]) == 2 and all(p[0] == "pbind" and not p[3] for p in pat[2]) \
            and it[0] == "mcall" and it[3] == "enumerate" and not it[4] and strip(it[2])[0] == "mcall" and strip(it[2])[3] == "into_iter" \
            and not strip(it[2])[4] and env.of(strip(it[2])[2]) == ("doc",)
        if not ok: raise Lost(loop[1], "the loop is not `for (idx, s) in <document>.into_iter().enumerate()`")
        idx, sname = pat[2][0][2], pat[2][1][2]
        if idx == sname: raise Lost(loop[1], "the loop binds one name twice")
        sc.tab[idx] = "idx"; sc.tab[sname] = "str"
        idxs = "(Some %s)" % q(idx)
    else:
        src = it
        if it[0] == "mcall" and it[3] == "into_iter" and not it[4]: src = strip(it[2])
        if not (pat[0] == "pbind" and not pat[3] and env.of(src) == ("doc",)):
            raise Lost(loop[1], "the loop is not `for s in <document>`")
        sname = pat[2]; sc.tab[sname] = "str"; idxs = "None"
    need = ["strings", "arena"] + (["map", "hasher"] if with_table else [])
    byname = {}
    for n, v in env.tab.items():
        byname.setdefault(v[0], []).append(n)
    for k in need:
        if len(byname.get(k, [])) != 1: raise Lost(loop[1], "the prelude does not bind exactly one %s" % k)
    if not with_table and (byname.get("map") or byname.get("hasher")): raise Lost(loop[1], "a table / hasher in the resolver's deserialize")
    if with_table:
        hty = env.get(byname["hasher"][0])[1]
        gens = imp[3]["generics"] or ""
        if hty not in [g.split(":")[0] for g in gens.strip("<>").split(",")]: raise Lost(loop[1], "the hasher is not a Default::default() of the impl's hasher parameter")
    stl = Body(env, rel).block(loop[4], sc)
    ar = env.get(byname["arena"][0])
    # the final expression
    t = strip(body[3]) if body[3] is not None else None
    if not (t and t[0] == "call" and is_path(t[2], "Ok") and len(t[3]) == 1 and strip(t[3][0])[0] == "struct" and is_path(strip(t[3][0])[2], "Self")):
        raise Lost(f[1], "deserialize does not end in Ok(Self { .. })")
    lit = strip(t[3][0])[3]
    litd = dict(lit)
    _, sfields = struct_fields(items, ty)
    if len(lit) != len(litd) or set(litd) != set(sfields): raise Lost(t[1], "Self { .. } does not name exactly the fields of %s" % ty)

    def is_local(e, kind):
        n = one_name(e)
        return n is not None and n == byname[kind][0]

    def is_wrapped_arena(e):
        e = strip(e)
        return e[0] == "call" and is_path(e[2], "AnyArena", "Arena") and len(e[3]) == 1 and is_local(e[3][0], "arena")
    for fld, e in lit:
        if fld == "strings": ok = is_local(e, "strings") and sfields[fld] == STRINGS_TY
        elif fld == "map": ok = with_table and is_local(e, "map")
        elif fld == "hasher": ok = with_table and is_local(e, "hasher")
        elif fld == "arena": ok = is_local(e, "arena") and sfields[fld] == "Arena"
        elif fld == "__arena": ok = is_wrapped_arena(e) and sfields[fld] == "AnyArena"
        elif fld == "__key": ok = is_path(strip(e), "PhantomData")
        else: ok = False
        if not ok: raise Lost(t[1], "field `%s` of the result is not built from the loop's local" % fld)
    return "(* %s:%d-%d  impl Deserialize for %s: fn deserialize *)\nDefinition %s : deser := mkDeser %s %s %s\n  %s.\n" % (
        rel, f[1], f[7], ty, gen, ar[1], ar[2], idxs, stl)


def lower_ser_strings(parser, items, ty, rel, gen):
    imp, f = find_impl(items, "Serialize", ty, rel)
    if len(f[4]) != 2 or f[4][0] != ("self", "&self"): raise Lost(f[1], "signature of serialize is not (&self, serializer: S)")
    param = f[4][1][0]
    _, sfields = struct_fields(items, ty)
    if sfields.get("strings") != STRINGS_TY: raise Lost(f[1], "%s has no field strings: %s" % (ty, STRINGS_TY))
    b = parser.fn_body(f)
    e = strip(b)
    if not (e[0] == "mcall" and e[3] == "serialize" and len(e[4]) == 1 and is_path(strip(e[4][0]), param) and is_self_field(strip(e[2]), "strings")):
        raise Lost(e[1] if e[0] != "block" else f[1], "serialize of %s is not exactly `self.strings.serialize(%s)`" % (ty, param))
    return "(* %s:%d-%d  impl Serialize for %s *)\nDefinition %s : serexpr := SerField \"strings\".\n" % (rel, f[1], f[7], ty, gen)


def lower_ser_threaded(parser, items, rel, gen):
    ty = "ThreadedRodeo"
    imp, f = find_impl(items, "Serialize", ty, rel)
    if len(f[4]) != 2 or f[4][0] != ("self", "&self"): raise Lost(f[1], "signature of serialize is not (&self, serializer: S)")
    param = f[4][1][0]
    _, sfields = struct_fields(items, ty)
    if sfields.get("map") != "DashMap<&'static str,K,S>": raise Lost(f[1], "ThreadedRodeo.map is not DashMap<&'static str, K, S>")
    b = parser.fn_body(f)
    bad = Lost(f[1], "serialize of ThreadedRodeo is not `let mut map = HashMap::with_capacity(self.map.len()); "
                     "for entry in self.map.iter() { map.insert(*entry.key(), entry.value().to_owned()); } map.serialize(%s)`" % param)
    if not (b[0] == "block" and len(b[2]) == 2 and b[3] is not None): raise bad
    l, fr = b[2]
    if not (l[0] == "let" and l[2][0] == "pbind"): raise bad
    m = l[2][2]; e = strip(l[4])
    if not (e[0] == "call" and is_path(e[2], "HashMap", "with_capacity") and len(e[3]) == 1 and strip(e[3][0])[0] == "mcall"
            and strip(e[3][0])[3] == "len" and is_self_field(strip(strip(e[3][0])[2]), "map")): raise bad
    if not (fr[0] == "expr" and fr[2][0] == "for" and fr[2][2][0] == "pbind"): raise bad
    en = fr[2][2][2]; it = strip(fr[2][3]); fb = fr[2][4]
    if not (it[0] == "mcall" and it[3] == "iter" and not it[4] and is_self_field(strip(it[2]), "map")): raise bad
    if not (fb[0] == "block" and len(fb[2]) == 1 and fb[3] is None and fb[2][0][0] == "expr"): raise bad
    c = strip(fb[2][0][2])
    if not (c[0] == "mcall" and c[3] == "insert" and is_path(strip(c[2]), m) and len(c[4]) == 2): raise bad
    k, v = strip(c[4][0]), strip(c[4][1])
    if not (k[0] == "un" and k[2] == "*" and strip(k[3])[0] == "mcall" and strip(k[3])[3] == "key" and is_path(strip(strip(k[3])[2]), en)): raise bad
    if not (v[0] == "mcall" and v[3] == "to_owned" and strip(v[2])[0] == "mcall" and strip(v[2])[3] == "value" and is_path(strip(strip(v[2])[2]), en)): raise bad
    t = strip(b[3])
    if not (t[0] == "mcall" and t[3] == "serialize" and is_path(strip(t[2]), m) and len(t[4]) == 1 and is_path(strip(t[4][0]), param)): raise bad
    return "(* %s:%d-%d  impl Serialize for ThreadedRodeo *)\nDefinition %s : serexpr := SerMapCollected.\n" % (rel, f[1], f[7], gen)


# ---------------------------------------------------------------- ThreadedRodeo::deserialize
def key_index(e, keyname):
    e = strip(e)
    return e[0] == "mcall" and e[3] == "into_usize" and not e[4] and is_path(strip(e[2]), keyname)


def is_custom_err_return(e):
    e = strip(e)
    if e[0] != "return" or e[2] is None: return False
    r = strip(e[2])
    if not (r[0] == "call" and is_path(r[2], "Err") and len(r[3]) == 1): return False
    c = strip(r[3][0])
    return c[0] == "call" and c[2][0] == "path" and names_of(c[2])[-2:] == ["Error", "custom"] and len(c[3]) == 1 and strip(c[3][0])[0] == "strlit"


def threaded_sym(s, env, param):
    """one prelude `let` of ThreadedRodeo::deserialize"""
    if s[0] != "let" or s[2][0] != "pbind" or s[4] is None: raise Lost(s[1], "statement of the prelude of deserialize is not a plain `let`")
    x, ty, e0, ln = s[2][2], s[3], s[4], s[1]
    e = strip(e0)
    v = None
    if e[0] == "try":
        c = strip(e[2])
        if c[0] == "call" and is_path(c[2], "HashMap", "deserialize") and len(c[3]) == 1 and is_path(strip(c[3][0]), param) and ty == "HashMap<String,K>":
            v = ("doc",)
        else: raise Lost(ln, "the document is not read by `let m: HashMap<String, K> = HashMap::deserialize(%s)?`" % param)
    elif e[0] == "macrorep":
        n = strip(e[4])
        if is_path(strip(e[3]), "false") and n[0] == "mcall" and n[3] == "len" and not n[4] and env.of(n[2]) == ("doc",): v = ("seen",)
        else: raise Lost(ln, "vec![..; ..] is not vec![false; <document>.len()]")
    elif e[0] == "lit" and e[3] is None: v = ("next", e[2])
    elif e[0] == "call" and is_path(e[2], "S", "default") and not e[3]: v = ("hasher",)
    elif e[0] == "call" and is_path(e[2], "DashMap", "with_capacity_and_hasher") and len(e[3]) == 2:
        a, h = strip(e[3][0]), strip(e[3][1])
        if h[0] == "mcall" and h[3] == "clone" and not h[4]: h = strip(h[2])
        if a[0] == "field" and a[3] == "strings" and (env.of(a[2]) or ("?",))[0] == "cap" and env.of(h) == ("hasher",): v = ("dashmap",)
        else: raise Lost(ln, "DashMap::with_capacity_and_hasher is not given (<capacity>.strings, <hasher>[.clone()])")
    elif e[0] == "mcall" and e[3] == "expect" and strip(e[2])[0] == "call" and is_path(strip(e[2])[2], "LockfreeArena", "new"):
        a = strip(e[2])
        if len(a[3]) == 2 and len(e[4]) == 1 and strip(e[4][0])[0] == "strlit":
            b, m = strip(a[3][0]), strip(a[3][1])
            if b[0] == "field" and b[3] == "bytes" and (env.of(b[2]) or ("?",))[0] == "cap" and is_path(m, "usize", "MAX"):
                v = ("arena", env.of(b[2])[1], "DLimUsizeMax")
        if v is None: raise Lost(ln, "LockfreeArena::new is not given (<capacity>.bytes, usize::MAX)")
    else:
        v = sym_value(e0, env, ty, param, ln)          # the capacity block / its flattened lets
    env.tab[x] = v


def lower_deser_threaded(parser, items, rel, gen):
    ty = "ThreadedRodeo"
    imp, f = find_impl(items, "Deserialize", ty, rel)
    if len(f[4]) != 1 or f[4][0][0] == "self": raise Lost(f[1], "signature of deserialize is not (deserializer: D)")
    param = f[4][0][0]
    if (f[5] or "").replace(" ", "") != "Result<Self,D::Error>": raise Lost(f[1], "deserialize does not return Result<Self, D::Error>")
    _, sfields = struct_fields(items, ty)
    if sfields != {"map": "DashMap<&'static str,K,S>", "strings": "DashMap<K,&'static str,S>", "key": "AtomicUsize", "arena": "LockfreeArena"}:
        raise Lost(f[1], "struct ThreadedRodeo does not have the expected fields")
    body = parser.fn_body(f)
    env = Env(); loops = []; check = False; main = None
    for s in body[2]:
        if s[0] == "expr" and s[2][0] == "for":
            fr = s[2]; it = strip(fr[3])
            if main is not None: raise Lost(s[1], "a loop after the filling loop")
            if it[0] == "mcall" and it[3] == "values" and not it[4] and env.of(it[2]) == ("doc",):
                # the key check, in exactly its shape
                bad = Lost(s[1], "the key check is not `for key in <document>.values() { match <seen>.get_mut(key.into_usize()) "
                                 "{ Some(s) if !*s => *s = true, _ => return Err(custom(..)) } }`")
                if check or fr[2][0] != "pbind": raise bad
                kn = fr[2][2]; m = strip(fr[4])
                if not (m[0] == "match" and len(m[3]) == 2): raise bad
                g = strip(m[2])
                if not (g[0] == "mcall" and g[3] == "get_mut" and len(g[4]) == 1 and env.of(g[2]) == ("seen",) and key_index(g[4][0], kn)): raise bad
                a1, a2 = m[3]
                if not (len(a1) == 3 and a1[0][0] == "ptuplestruct" and names_of(a1[0][2]) == ["Some"] and len(a1[0][3]) == 1 and a1[0][3][0][0] == "pbind"): raise bad
                sn = a1[0][3][0][2]
                isd = lambda e: strip(e)[0] == "un" and strip(e)[2] == "*" and is_path(strip(strip(e)[3]), sn)
                gd, bd = strip(a1[2]), strip(a1[1])
                if not (gd[0] == "un" and gd[2] == "!" and isd(gd[3])): raise bad
                if not (bd[0] == "assign" and bd[2] == "=" and isd(bd[3]) and is_path(strip(bd[4]), "true")): raise bad
                if not (len(a2) == 2 and a2[0][0] == "pwild" and is_custom_err_return(a2[1])): raise bad
                check = True; continue
            main = fr; continue
        if main is not None: raise Lost(s[1], "statement between the loop and the final Ok(..) is outside the subset")
        threaded_sym(s, env, param)
    if main is None: raise Lost(f[1], "deserialize has no filling loop")
    byname = {}
    for n, v in env.tab.items(): byname.setdefault(v[0], []).append(n)
    if len(byname.get("arena", [])) != 1 or len(byname.get("next", [])) != 1 or len(byname.get("dashmap", [])) != 2:
        raise Lost(main[1], "the prelude does not bind exactly one arena, one counter and two DashMaps")
    if check and len(byname.get("seen", [])) != 1: raise Lost(main[1], "the key check does not use the one `seen` vector")
    # the final expression decides which DashMap is which
    t = strip(body[3]) if body[3] is not None else None
    if not (t and t[0] == "call" and is_path(t[2], "Ok") and len(t[3]) == 1 and strip(t[3][0])[0] == "struct" and is_path(strip(t[3][0])[2], "Self")):
        raise Lost(f[1], "deserialize does not end in Ok(Self { .. })")
    lit = strip(t[3][0])[3]; litd = dict(lit)
    if len(lit) != 4 or set(litd) != set(sfields): raise Lost(t[1], "Self { .. } does not name exactly the fields of ThreadedRodeo")
    mapn, strn = one_name(litd["map"]), one_name(litd["strings"])
    nextn = byname["next"][0]
    kx = strip(litd["key"])
    if not (mapn and strn and mapn != strn and {mapn, strn} == set(byname["dashmap"]) and one_name(litd["arena"]) == byname["arena"][0]
            and kx[0] == "call" and is_path(kx[2], "AtomicUsize", "new") and len(kx[3]) == 1 and one_name(kx[3][0]) == nextn):
        raise Lost(t[1], "the result is not Self { map, strings, key: AtomicUsize::new(<counter>), arena } of the loop's locals")
    # the loop
    pat, it = main[2], strip(main[3])
    if it[0] == "mcall" and it[3] == "into_iter" and not it[4]: it = strip(it[2])
    if not (pat[0] == "ptuple" and len(pat[2]) == 2 and all(p[0] == "pbind" and not p[3] for p in pat[2]) and env.of(it) == ("doc",)):
        raise Lost(main[1], "the loop is not `for (string, key) in <document>`")
    sname, kname = pat[2][0][2], pat[2][1][2]
    if sname == kname: raise Lost(main[1], "the loop binds one name twice")
    blk = main[4]
    ss = list(blk[2]) + ([("expr", blk[3][1], blk[3], False)] if blk[3] is not None else [])
    out = []; copies = set()
    for s in ss:
        ln = s[1]
        if s[0] == "let" and s[2][0] == "pbind" and s[4] is not None:
            r = expect_str(strip(s[4]), "the call", ln)
            a = strip(r[4][0]) if r[0] == "mcall" and r[3] == "store_str" and len(r[4]) == 1 else None
            if a and one_name(r[2]) == byname["arena"][0] and a[0] == "ref" and not a[2] and one_name(a[3]) == sname and s[2][2] not in (sname, kname):
                copies.add(s[2][2]); out.append((ln, "TStoreExpect %s" % q(s[2][2]))); continue
            raise Lost(ln, "`let` in the loop is not let x = unsafe { <arena>.store_str(&<string>).expect(..) }")
        e = strip(s[2]) if s[0] == "expr" else None
        if e is not None and e[0] == "if" and e[4] is None:
            c = strip(e[2]); b = e[3]
            if c[0] == "bin" and c[2] in (">=", ">") and key_index(c[3], kname) and one_name(c[4]) == nextn \
                    and b[0] == "block" and len(b[2]) == 1 and b[3] is None and b[2][0][0] == "expr":
                asg = strip(b[2][0][2])
                if asg[0] == "assign" and asg[2] == "=" and one_name(asg[3]) == nextn:
                    r = strip(asg[4])
                    if r[0] == "bin" and r[2] == "+" and key_index(r[3], kname) and strip(r[4])[0] == "lit":
                        out.append((ln, "TBumpNext %s %d" % ("true" if c[2] == ">" else "false", strip(r[4])[2]))); continue
                    if key_index(r, kname):
                        out.append((ln, "TBumpNext %s 0" % ("true" if c[2] == ">" else "false"))); continue
            raise Lost(ln, "`if` in the loop is not `if key.into_usize() >= <counter> { <counter> = key.into_usize() + 1; }`")
        if e is not None and e[0] == "mcall" and e[3] == "insert" and len(e[4]) == 2:
            tgt = one_name(e[2]); a0, a1 = one_name(e[4][0]), one_name(e[4][1])
            if tgt == mapn and a0 in copies and a1 == kname: out.append((ln, "TMapInsert %s" % q(a0))); continue
            if tgt == strn and a0 == kname and a1 in copies: out.append((ln, "TStringsInsert %s" % q(a1))); continue
            raise Lost(ln, "`insert` in the loop is neither <map>.insert(<copy>, key) nor <strings>.insert(key, <copy>)")
        raise Lost(ln, "statement in the loop is outside the subset")
    ar = env.get(byname["arena"][0])
    return "(* %s:%d-%d  impl Deserialize for ThreadedRodeo: fn deserialize *)\nDefinition %s : tdeser := mkTDeser %s %s %s %d\n  [ %s ].\n" % (
        rel, f[1], f[7], gen, "true" if check else "false", ar[1], ar[2], env.get(nextn)[1],
        ";\n    ".join("(* %s:%d *) %s" % (rel, l, x) for l, x in out))


def run(repo, out):
    parts = []
    jobs = [("src/rodeo.rs", "Rodeo", "rodeo", True), ("src/reader.rs", "RodeoReader", "reader", True),
            ("src/resolver.rs", "RodeoResolver", "resolver", False)]
    names = []
    for rel, ty, short, with_table in jobs:
        path = os.path.join(repo, rel)
        try:
            parser, items = rsparse.parse_file(path)
            parts.append(lower_deser(parser, items, ty, rel, "gen_de_" + short, with_table))
            parts.append(lower_ser_strings(parser, items, ty, rel, "gen_ser_" + short))
        except Lost as e:
            if not getattr(e, "file", None): e.file = path
            raise
        names += ["gen_de_" + short, "gen_ser_" + short]
    rel = "src/threaded_rodeo.rs"; path = os.path.join(repo, rel)
    try:
        parser, items = rsparse.parse_file(path)
        parts.append(lower_ser_threaded(parser, items, rel, "gen_ser_threaded"))
        parts.append(lower_deser_threaded(parser, items, rel, "gen_de_threaded"))
    except Lost as e:
        if not getattr(e, "file", None): e.file = path
        raise
    names += ["gen_ser_threaded", "gen_de_threaded"]
    hdr = """(* SerdeGen.v -- GENERATED by rust2coq.py from %s
   DO NOT EDIT: regenerated on every run.  The deserialisers (prelude summarised, loop body in source order) and the
   serialisers of the interners, as terms of GenIRSerde.v. *)
From Lasso Require Import Base Arena Rodeo.
From LassoGen Require Import GenPrelude GenIR GenIRRodeo GenIRSerde.
Open Scope string_scope.
Open Scope N_scope.

""" % os.path.join(repo, "src")
    tail = "\n#[global] Hint Unfold %s : arenagen.\n" % " ".join(names)
    open(os.path.join(out, "SerdeGen.v"), "w").write(hdr + "\n".join(parts) + tail)
    print("rust2coq: serde: %d definitions -> %s" % (len(names), os.path.join(out, "SerdeGen.v")))
