(* LegacySanityLf.v -- HAND-WRITTEN sanity check for the lock-free arena, compiled by sanity_f1.sh against a scratch
   copy of lockfree.rs WITHOUT the F1 repair; not expected to compile against the current source. *)
From Lasso Require Import Base Arena ArenaProofs.
From LassoGen Require Import GenPrelude GenIR GenRequest GenIRLf GenTactics GenTacticsLf LockfreeGen.
Open Scope N_scope.

Theorem legacy_lf_store_str_eq : forall a s, 2 * bucket_cap a <= ab_cap_max -> slen s <= ab_cap_max ->
  as_str_result (fst (run_lfun gen_lf_store_str a s [])) = Some (Arena.lf_store_legacy a s).
Proof. gen_lf_tac. Qed.

Print Assumptions legacy_lf_store_str_eq.
