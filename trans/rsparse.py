#!/usr/bin/env python3
"""rsparse.py -- a small, strict tokenizer and recursive-descent parser for the subset of Rust that
rust2coq.py translates.  No guessing: any token sequence outside the grammar below raises Lost(line, what).

The parser is deliberately generic (it knows nothing of lasso); the *meaning* given to the trees is in
rust2coq.py.  AST nodes are tuples whose 2nd component is always the source line:

  expressions
    ('lit', ln, value:int, suffix:str|None)        ('strlit', ln, text)          ('charlit', ln, text)
    ('path', ln, [seg, ...])     seg = name | (name, [generic-arg type strings])   e.g. ['u32','MAX']
    ('field', ln, e, name)       ('mcall', ln, recv, name, [args])               ('call', ln, f, [args])
    ('bin', ln, op, a, b)        ('un', ln, op, e)       ('cast', ln, e, type-string)   ('try', ln, e)
    ('ref', ln, is_mut, e)       ('assign', ln, op, lhs, rhs)    op in '=', '+=', '-=', '*='
    ('if', ln, cond, then-block, else-expr|None)
    ('iflet', ln, pattern, scrutinee, then-block, else-expr|None)
    ('block', ln, [stmts], tail-expr|None, is_unsafe)
    ('struct', ln, path-node, [(field, expr)])     (shorthand `Self { key }` gives (key, path key))
    ('closure', ln, [param names], body)           ('macro', ln, name, [args])   (args parsed as exprs)
    ('return', ln, e|None)       ('for', ln, pattern, iter-expr, block)          ('tuple', ln, [es])
    ('tfield', ln, e, index)     ('match', ln, scrutinee, [(pattern, arm-expr[, guard])])   ('index', ln, e, i)    ('range', ln, lo, hi)     ('break', ln)   ('continue', ln)
  patterns (only what `if let` / `for` / `let` need)
    ('pbind', ln, name, is_mut)  ('ptuplestruct', ln, path-node, [patterns])     ('pwild', ln)    ('ptuple', ln, [patterns])
    ('pref', ln, pattern)   ('pstruct', ln, path-node, [(field, pattern)], has_rest)   ('ppath', ln, path-node)  (e.g. `None`)
  statements
    ('let', ln, pattern, type-string|None, init-expr)     ('expr', ln, e, has_semicolon)
"""
import re


class Lost(Exception):
    def __init__(self, line, what):
        Exception.__init__(self, "%s: %s" % (line, what))
        self.line, self.what = line, what


KEYWORDS = {"as", "break", "const", "continue", "crate", "else", "enum", "extern", "false", "fn", "for", "if", "impl",
            "in", "let", "loop", "match", "mod", "move", "mut", "pub", "ref", "return", "self", "Self", "static",
            "struct", "super", "trait", "true", "type", "unsafe", "use", "where", "while", "dyn"}

# NB: `<<` / `>>` are deliberately NOT tokens (so `Vec<Vec<u8>>` needs no splitting); shifts are outside the subset
# and surface as a parse error.
PUNCT = ["...", "..=", "::", "->", "=>", "==", "!=", "<=", ">=", "&&", "||", "+=", "-=", "*=", "/=",
         "%=", "^=", "&=", "|=", "..",
         "+", "-", "*", "/", "%", "^", "!", "&", "|", "=", "<", ">", "@", ".", ",", ";", ":", "#", "$", "?",
         "(", ")", "[", "]", "{", "}"]

_ident = re.compile(r"[A-Za-z_][A-Za-z0-9_]*")
_num = re.compile(r"(0x[0-9a-fA-F_]+|0b[01_]+|0o[0-7_]+|[0-9][0-9_]*)(u8|u16|u32|u64|u128|usize|i8|i16|i32|i64|i128|isize)?")


class Tok:
    __slots__ = ("kind", "text", "line", "val")

    def __init__(self, kind, text, line, val=None):
        self.kind, self.text, self.line, self.val = kind, text, line, val

    def __repr__(self):
        return "%s:%r@%d" % (self.kind, self.text, self.line)


def tokenize(src):
    """kinds: id, kw, num, str, char, life, p (punctuation), eof.  Comments (incl. doc comments) are dropped."""
    toks, i, n, line = [], 0, len(src), 1
    while i < n:
        c = src[i]
        if c == "\n":
            line += 1; i += 1; continue
        if c in " \t\r":
            i += 1; continue
        if src.startswith("//", i):
            j = src.find("\n", i)
            i = n if j < 0 else j
            continue
        if src.startswith("/*", i):
            depth, j = 1, i + 2
            while j < n and depth:
                if src.startswith("/*", j): depth += 1; j += 2
                elif src.startswith("*/", j): depth -= 1; j += 2
                else:
                    if src[j] == "\n": line += 1
                    j += 1
            if depth: raise Lost(line, "unterminated block comment")
            i = j; continue
        if c == '"' or (c == "b" and src.startswith('b"', i)):
            j = i + (2 if c == "b" else 1); start = line
            buf = []
            while j < n and src[j] != '"':
                if src[j] == "\\": buf.append(src[j:j + 2]); j += 2; continue
                if src[j] == "\n": line += 1
                buf.append(src[j]); j += 1
            if j >= n: raise Lost(start, "unterminated string literal")
            toks.append(Tok("str", "".join(buf), start)); i = j + 1; continue
        if c == "r" and re.match(r'r#*"', src[i:]):
            m = re.match(r'r(#*)"', src[i:]); close = '"' + m.group(1)
            j = src.find(close, i + len(m.group(0)))
            if j < 0: raise Lost(line, "unterminated raw string")
            text = src[i + len(m.group(0)):j]
            toks.append(Tok("str", text, line)); line += text.count("\n"); i = j + len(close); continue
        if c == "'":
            m = re.match(r"'(\\.[^']*|[^'\\])'", src[i:])
            if m:
                toks.append(Tok("char", m.group(1), line)); i += len(m.group(0)); continue
            m = re.match(r"'[A-Za-z_][A-Za-z0-9_]*", src[i:])
            if m:
                toks.append(Tok("life", m.group(0), line)); i += len(m.group(0)); continue
            raise Lost(line, "stray quote")
        m = _num.match(src, i)
        if m and c.isdigit():
            body = m.group(1).replace("_", "")
            val = int(body, 0) if body[:2] in ("0x", "0b", "0o") else int(body)
            j = m.end()
            if j < n and (src[j].isalpha() or (src[j] == "." and j + 1 < n and src[j + 1].isdigit())):
                raise Lost(line, "numeric literal form not supported: %r" % src[i:j + 4])
            toks.append(Tok("num", m.group(0), line, (val, m.group(2)))); i = j; continue
        m = _ident.match(src, i)
        if m:
            t = m.group(0)
            toks.append(Tok("kw" if t in KEYWORDS else "id", t, line)); i = m.end(); continue
        for p in PUNCT:
            if src.startswith(p, i):
                toks.append(Tok("p", p, line)); i += len(p); break
        else:
            raise Lost(line, "unexpected character %r" % c)
    toks.append(Tok("eof", "", line))
    return toks


def _wordy(t):
    return t.kind in ("id", "kw", "num", "life")


def join_tokens(ts):
    out = []
    for k, t in enumerate(ts):
        if k and _wordy(ts[k - 1]) and _wordy(t):
            out.append(" ")
        out.append(t.text)
    return "".join(out)


CLOSE = {"(": ")", "[": "]", "{": "}"}


def closure_param(p):
    """closure parameter as a name, "_", or a tuple of those (for `|(layout, _)| ..`)"""
    if p[0] == "pbind": return p[2]
    if p[0] == "pwild": return "_"
    if p[0] == "ptuple": return tuple(closure_param(q) for q in p[2])
    if p[0] == "pref" and p[2][0] == "pbind": return "&" + p[2][2]
    raise Lost(p[1], "closure parameter pattern outside the subset")


class Parser:
    def __init__(self, toks, fname="<src>"):
        self.t, self.i, self.fname = toks, 0, fname

    # ---- token helpers ----
    def peek(self, k=0):
        return self.t[min(self.i + k, len(self.t) - 1)]

    def at(self, text, k=0):
        x = self.peek(k)
        return x.kind in ("p", "kw") and x.text == text

    def next(self):
        x = self.t[self.i]
        if x.kind != "eof":
            self.i += 1
        return x

    def lost(self, what, tok=None):
        tok = tok or self.peek()
        raise Lost(tok.line, what)

    def expect(self, text):
        if not self.at(text):
            self.lost("expected `%s`, found `%s`" % (text, self.peek().text or "<eof>"))
        return self.next()

    def accept(self, text):
        if self.at(text):
            self.next(); return True
        return False

    def ident(self):
        x = self.peek()
        if x.kind != "id":
            self.lost("expected identifier, found `%s`" % x.text)
        return self.next().text

    def skip_balanced(self):
        """current token is an opening bracket: skip to just after its partner; returns the skipped tokens"""
        start = self.i
        o = self.peek()
        if not (o.kind == "p" and o.text in CLOSE):
            self.lost("expected an opening bracket")
        stack = []
        while True:
            x = self.next()
            if x.kind == "eof":
                raise Lost(o.line, "unbalanced `%s`" % o.text)
            if x.kind == "p" and x.text in CLOSE:
                stack.append(CLOSE[x.text])
            elif x.kind == "p" and x.text in (")", "]", "}"):
                if not stack or stack.pop() != x.text:
                    raise Lost(x.line, "mismatched `%s`" % x.text)
                if not stack:
                    return self.t[start:self.i]

    # ---- types (returned as normalised strings) ----
    def parse_type(self):
        start = self.i
        self._type()
        return join_tokens(self.t[start:self.i])

    def _type(self):
        x = self.peek()
        if self.accept("&") or self.accept("&&"):          # `&&T` (one token) is a reference to a reference  [iters chain]
            if self.peek().kind == "life": self.next()
            self.accept("mut"); self._type(); return
        if self.accept("*"):
            if not (self.accept("const") or self.accept("mut")): self.lost("raw pointer type needs const/mut")
            self._type(); return
        if self.at("("):
            self.next()
            while not self.at(")"):
                self._type()
                if not self.accept(","): break
            self.expect(")"); return
        if self.at("["):
            self.next(); self._type()
            if self.accept(";"):
                self.expr()
            self.expect("]"); return
        if self.accept("dyn") or self.accept("impl"):
            self._type(); return
        if self.at("<"):                       # qualified path  <T as Trait>::X
            self._generic_args()
            self.expect("::")
        # path type
        while True:
            y = self.peek()
            if y.kind == "id" or (y.kind == "kw" and y.text in ("Self", "self", "crate", "super")):
                self.next()
            else:
                self.lost("expected a type, found `%s`" % y.text)
            if self.at("<"):
                self._generic_args()
            if self.at("::"):
                self.next()
                if self.at("<"):
                    self._generic_args()
                    if not self.accept("::"): return
                continue
            return

    def _generic_args(self):
        self.expect("<")
        while not self.at(">"):
            if self.peek().kind == "life":
                self.next()
            elif self.peek().kind == "num" or self.at("{"):
                self.lost("const generic arguments are outside the subset")
            else:
                self._type()
                if self.accept("="):       # associated type binding
                    self._type()
                elif self.accept("as"):    # <T as Trait>
                    self._type()
            if not self.accept(","): break
        self.expect(">")

    # ---- patterns ----
    def pattern(self):
        x = self.peek()
        if x.kind == "id" and x.text == "_":
            self.next(); return ("pwild", x.line)
        if self.at(".."):      # rest pattern inside a tuple(-struct) pattern: `Occupied(..)`   [serde chain]
            self.next(); return ("prest", x.line)
        if self.at("("):
            self.next(); subs = []
            while not self.at(")"):
                subs.append(self.pattern())
                if not self.accept(","): break
            self.expect(")")
            return ("ptuple", x.line, subs)
        if self.at("&"):
            self.next()
            if self.at("mut"): self.lost("`&mut` pattern is outside the subset")
            return ("pref", x.line, self.pattern())
        if self.at("mut") and self.peek(1).kind == "id":
            self.next(); return ("pbind", x.line, self.ident(), True)
        if x.kind == "id" or (x.kind == "kw" and x.text in ("Self", "crate")):
            p = self._path_expr()
            if self.at("("):
                self.next(); subs = []
                while not self.at(")"):
                    subs.append(self.pattern())
                    if not self.accept(","): break
                self.expect(")")
                return ("ptuplestruct", x.line, p, subs)
            if self.at("{"):
                self.next(); fields = []; rest = False
                while not self.at("}"):
                    if self.accept(".."):
                        rest = True; break
                    ln = self.peek().line
                    f = self.ident()
                    if self.accept(":"):
                        fields.append((f, self.pattern()))
                    else:
                        fields.append((f, ("pbind", ln, f, False)))
                    if not self.accept(","): break
                self.expect("}")
                return ("pstruct", x.line, p, fields, rest)
            if len(p[2]) == 1 and isinstance(p[2][0], str) and (p[2][0][0].islower() or p[2][0][0] == "_"):
                return ("pbind", x.line, p[2][0], False)
            if all(isinstance(q, str) for q in p[2]):
                return ("ppath", x.line, p)
            self.lost("pattern form outside the subset", x)
        self.lost("pattern form outside the subset: `%s`" % x.text)

    # ---- expressions ----
    def expr(self, no_struct=False):
        return self._assign(no_struct)

    def _assign(self, ns):
        x = self.peek()
        if self.at("return"):
            self.next()
            if self.at(";") or self.at("}") or self.at(")") or self.at(","):
                return ("return", x.line, None)
            return ("return", x.line, self.expr(ns))
        if self.at("|") or self.at("||") or (self.at("move") and (self.at("|", 1) or self.at("||", 1))):
            return self._closure(ns)
        if self.at("break") or self.at("continue"):
            self.next()
            if not (self.at(";") or self.at("}") or self.at(",")):
                self.lost("`%s` with a label or value is outside the subset" % x.text)
            return (x.text, x.line)
        lhs = self._range(ns)
        for op in ("=", "+=", "-=", "*="):
            if self.at(op):
                self.next()
                return ("assign", x.line, op, lhs, self._assign(ns))
        for op in ("/=", "%=", "^=", "&=", "|="):
            if self.at(op): self.lost("operator `%s` is outside the subset" % op)
        return lhs

    def _closure(self, ns):
        x = self.peek()
        self.accept("move")
        params = []
        if not self.accept("||"):
            self.expect("|")
            while not self.at("|"):
                p = self.pattern()
                if p[0] not in ("pbind", "pwild", "ptuple", "pref"): self.lost("closure parameter pattern outside the subset", x)
                if self.accept(":"): self.parse_type()
                params.append(closure_param(p))
                if not self.accept(","): break
            self.expect("|")
        if self.at("->"):
            self.next(); self.parse_type()
            if not self.at("{"): self.lost("closure with a return type needs a block body")
        return ("closure", x.line, params, self.expr(ns))

    def _range(self, ns):
        x = self.peek()
        e = self._binary(0, ns)
        if self.at(".."):
            self.next()
            if self.at("{") or self.at(")") or self.at(";") or self.at(","): self.lost("open-ended range")
            return ("range", x.line, e, self._binary(0, ns))
        if self.at("..=") or self.at("..."):
            self.lost("inclusive range expressions are outside the subset")
        return e

    BINLEVELS = [["||"], ["&&"], ["==", "!=", "<", ">", "<=", ">="], ["|"], ["^"], ["&"], ["+", "-"], ["*", "/", "%"]]

    def _binary(self, lvl, ns):
        if lvl == len(self.BINLEVELS):
            return self._cast(ns)
        ops = self.BINLEVELS[lvl]
        a = self._binary(lvl + 1, ns)
        count = 0
        while True:
            x = self.peek()
            if x.kind == "p" and x.text in ops:
                if lvl == 2 and count:
                    self.lost("chained comparison operators")
                self.next()
                b = self._binary(lvl + 1, ns)
                a = ("bin", x.line, x.text, a, b); count += 1
            else:
                return a

    def _cast(self, ns):
        e = self._unary(ns)
        while self.at("as"):
            x = self.next()
            e = ("cast", x.line, e, self.parse_type())
        return e

    def _unary(self, ns):
        x = self.peek()
        if x.kind == "p" and x.text in ("!", "-", "*"):
            self.next(); return ("un", x.line, x.text, self._unary(ns))
        if self.at("&"):
            self.next(); m = self.accept("mut")
            return ("ref", x.line, m, self._unary(ns))
        if self.at("&&"):
            self.lost("`&&` reference-of-reference is outside the subset")
        return self._postfix(self._primary(ns), ns)

    def _postfix(self, e, ns):
        while True:
            x = self.peek()
            if self.at("?"):
                self.next(); e = ("try", x.line, e)
            elif self.at("."):
                self.next()
                y = self.peek()
                if y.kind == "num":
                    if y.val[1] is not None: self.lost("tuple field access with a suffixed index")
                    self.next(); e = ("tfield", x.line, e, y.val[0]); continue
                if self.at("await"): self.lost("await")
                name = self.ident()
                if self.at("::"):
                    self.next(); self._generic_args()
                    if not self.at("("): self.lost("turbofish without call")
                if self.at("("):
                    e = ("mcall", x.line, e, name, self._args(")"))
                else:
                    e = ("field", x.line, e, name)
            elif self.at("("):
                e = ("call", x.line, e, self._args(")"))
            elif self.at("["):
                self.next(); i = self.expr(); self.expect("]")
                e = ("index", x.line, e, i)
            else:
                return e

    def _args(self, close):
        self.next(); args = []
        while not self.at(close):
            args.append(self.expr())
            if not self.accept(","): break
        self.expect(close)
        return args

    def _path_expr(self):
        x = self.peek(); segs = []
        if self.at("<"): self.lost("qualified paths are outside the subset")
        while True:
            y = self.peek()
            if y.kind == "id" or (y.kind == "kw" and y.text in ("self", "Self", "crate", "super")):
                self.next(); name = y.text
            else:
                self.lost("expected a path segment, found `%s`" % y.text)
            if self.at("::") and self.at("<", 1):
                self.next(); s = self.i; self._generic_args()
                inner = self.t[s + 1:self.i - 1]
                segs.append((name, join_tokens(inner)))
            else:
                segs.append(name)
            if self.at("::"):
                self.next(); continue
            return ("path", x.line, segs)

    def _primary(self, ns):
        x = self.peek()
        if x.kind == "num":
            self.next(); return ("lit", x.line, x.val[0], x.val[1])
        if x.kind == "str":
            self.next(); return ("strlit", x.line, x.text)
        if x.kind == "char":
            self.next(); return ("charlit", x.line, x.text)
        if self.at("true") or self.at("false"):
            self.next(); return ("path", x.line, [x.text])
        if self.at("("):
            self.next()
            if self.accept(")"):
                return ("tuple", x.line, [])
            e = self.expr()
            if self.at(","):
                es = [e]
                while self.accept(","):
                    if self.at(")"): break
                    es.append(self.expr())
                self.expect(")")
                return ("tuple", x.line, es)
            self.expect(")")
            return ("paren", x.line, e)
        if self.at("if"):
            return self._if()
        if self.at("unsafe") and self.at("{", 1):
            self.next(); b = self.block(); return ("block", b[1], b[2], b[3], True)
        if self.at("{"):
            return self.block()
        if self.at("for"):
            self.next(); p = self.pattern(); self.expect("in")
            it = self.expr(no_struct=True)
            return ("for", x.line, p, it, self.block())
        if self.at("match"):
            return self._match()
        for kw in ("while", "loop", "async", "let"):
            if self.at(kw): self.lost("`%s` expressions are outside the subset" % kw)
        if x.kind == "id" or (x.kind == "kw" and x.text in ("self", "Self", "crate", "super")):
            p = self._path_expr()
            if self.at("!") and not self.at("!=") and self.peek(1).kind == "p" and self.peek(1).text in CLOSE:
                self.next()
                close = CLOSE[self.peek().text]
                name = "::".join(s if isinstance(s, str) else s[0] for s in p[2])
                self.next(); args = []
                while not self.at(close):
                    args.append(self.expr())
                    if self.at(";"):
                        if name == "vec" and close == "]" and len(args) == 1:      # vec![x; n]   [serde chain]
                            self.next(); n = self.expr(); self.expect(close)
                            return ("macrorep", x.line, name, args[0], n)
                        self.lost("`%s![x; n]` form is outside the subset" % name)
                    if not self.accept(","): break
                self.expect(close)
                return ("macro", x.line, name, args)
            if self.at("{") and not ns and self._looks_like_struct_lit():
                return self._struct_lit(p)
            return p
        self.lost("unexpected token `%s` in expression" % (x.text or "<eof>"))

    def _looks_like_struct_lit(self):
        a, b = self.peek(1), self.peek(2)
        if a.kind == "p" and a.text == "}":
            return True
        if a.kind == "id" and b.kind == "p" and b.text in (":", ",", "}"):
            return True
        return False

    def _struct_lit(self, p):
        x = self.expect("{"); fields = []
        while not self.at("}"):
            if self.at(".."): self.lost("struct update syntax is outside the subset")
            ln = self.peek().line
            name = self.ident()
            if self.accept(":"):
                fields.append((name, self.expr()))
            else:
                fields.append((name, ("path", ln, [name])))
            if not self.accept(","): break
        self.expect("}")
        return ("struct", x.line, p, fields)

    def _if(self):
        x = self.expect("if")
        if self.at("let"):
            self.next(); pat = self.pattern(); self.expect("=")
            scrut = self.expr(no_struct=True)
            if self.at("&&") or self.at("||"): self.lost("if-let chains are outside the subset")
            then = self.block()
            return ("iflet", x.line, pat, scrut, then, self._else())
        cond = self.expr(no_struct=True)
        then = self.block()
        return ("if", x.line, cond, then, self._else())

    def _match(self):
        x = self.expect("match")
        scrut = self.expr(no_struct=True)
        self.expect("{"); arms = []
        while not self.at("}"):
            if self.at("#"): self.lost("attributes on match arms are outside the subset")
            pat = self.pattern()
            if self.at("|"): self.lost("or-patterns are outside the subset")
            guard = None
            if self.accept("if"): guard = self.expr()
            self.expect("=>")
            blocklike = self.at("{")
            body = self.expr()
            arms.append((pat, body) if guard is None else (pat, body, guard))
            if not self.accept(","):
                if not (blocklike or self.at("}")): self.lost("expected `,` after match arm")
        self.expect("}")
        return ("match", x.line, scrut, arms)

    def _else(self):
        if not self.accept("else"):
            return None
        if self.at("if"):
            return self._if()
        return self.block()

    BLOCKLIKE = ("if", "iflet", "block", "for", "match")

    def block(self):
        x = self.expect("{"); stmts = []; tail = None
        while not self.at("}"):
            y = self.peek()
            if self.at("#"):
                self.lost("attributes inside function bodies are outside the subset")
            if self.at(";"):
                self.next(); continue
            if self.at("let"):
                self.next(); pat = self.pattern(); ty = None
                if self.accept(":"): ty = self.parse_type()
                if not self.accept("="): self.lost("`let` without initialiser is outside the subset")
                init = self.expr()
                if self.at("else"): self.lost("let-else is outside the subset")
                self.expect(";")
                stmts.append(("let", y.line, pat, ty, init)); continue
            for kw in ("fn", "struct", "impl", "use", "const", "static", "mod", "enum", "trait", "type"):
                if self.at(kw): self.lost("nested item `%s` inside a function body is outside the subset" % kw)
            starts_blocklike = self.at("if") or self.at("{") or self.at("for") or self.at("match") or (self.at("unsafe") and self.at("{", 1))
            if starts_blocklike:
                # like rustc: a block-like expression in statement position is complete at its closing brace
                e = self._primary(False)
                if self.at(".") or self.at("?"):
                    self.lost("postfix operator after a block-like statement is outside the subset")
            else:
                e = self.expr()
            if self.accept(";"):
                stmts.append(("expr", y.line, e, True))
            elif self.at("}"):
                tail = e
            elif starts_blocklike:
                stmts.append(("expr", y.line, e, False))
            else:
                self.lost("expected `;` or `}` after expression, found `%s`" % self.peek().text)
        self.expect("}")
        return ("block", x.line, stmts, tail, False)

    # ---- items ----
    def attributes(self):
        """returns the list of attribute texts (without `#[` `]`)"""
        attrs = []
        while self.at("#"):
            self.next(); self.accept("!")
            if not self.at("["): self.lost("malformed attribute")
            ts = self.skip_balanced()
            attrs.append(join_tokens(ts[1:-1]))
        return attrs

    def visibility(self):
        if self.accept("pub"):
            if self.at("(") and (self.at("crate", 1) or self.at("super", 1) or self.at("self", 1) or self.at("in", 1)):
                self.skip_balanced()

    def items(self, until_brace=False):
        """parse items up to eof (or the closing brace of a mod/impl body, not consumed).  Returns a list of
             ('fn', ln, attrs, name, params, ret-type|None, body-token-range|None, end-line, quals)
             ('struct', ln, attrs, name, [(field, type)] | None)
             ('impl', ln, attrs, header-dict, [items], end-line)
             ('mod', ln, attrs, name, [items] | None)
             ('skipped', ln, attrs, kind, tokens)     use/const/static/type/enum/trait/macro_rules/macro call"""
        out = []
        while True:
            if self.peek().kind == "eof":
                if until_brace: self.lost("unexpected end of file inside braces")
                return out
            if until_brace and self.at("}"):
                return out
            attrs = self.attributes()
            x = self.peek()
            self.visibility()
            if self.at("use") or self.at("extern") and self.at("crate", 1):
                s = self.i
                while not self.at(";"):
                    if self.peek().kind == "eof": self.lost("unterminated `use`", x)
                    if self.at("{"): self.skip_balanced()
                    else: self.next()
                self.next()
                out.append(("skipped", x.line, attrs, "use", self.t[s:self.i])); continue
            if self.at("struct"):
                out.append(self._struct_item(attrs)); continue
            if self.at("mod"):
                self.next(); name = self.ident()
                if self.accept(";"):
                    out.append(("mod", x.line, attrs, name, None)); continue
                self.expect("{"); inner = self.items(until_brace=True); self.expect("}")
                out.append(("mod", x.line, attrs, name, inner)); continue
            if self.at("impl") or (self.at("unsafe") and self.at("impl", 1)):
                out.append(self._impl_item(attrs)); continue
            if self._at_fn():
                out.append(self._fn_item(attrs)); continue
            if self.at("enum") or self.at("trait") or self.at("union") or (self.at("unsafe") and self.at("trait", 1)):
                s = self.i; kind = "trait" if (self.at("trait") or self.at("trait", 1)) else "enum"
                while not self.at("{"):
                    if self.peek().kind == "eof" or self.at(";"): self.lost("malformed %s" % kind, x)
                    self.next()
                self.skip_balanced()
                out.append(("skipped", x.line, attrs, kind, self.t[s:self.i])); continue
            if self.at("const") or self.at("static") or self.at("type"):
                s = self.i; kind = self.peek().text
                while not self.at(";"):
                    if self.peek().kind == "eof": self.lost("unterminated `%s` item" % kind, x)
                    if self.peek().kind == "p" and self.peek().text in CLOSE: self.skip_balanced()
                    else: self.next()
                self.next()
                out.append(("skipped", x.line, attrs, kind, self.t[s:self.i])); continue
            if x.kind == "id" and self.at("!", 1):      # macro_rules! / item macro invocation
                s = self.i; self.next(); self.next()
                if self.peek().kind == "id": self.next()
                if not (self.peek().kind == "p" and self.peek().text in CLOSE): self.lost("malformed macro item", x)
                br = self.peek().text
                self.skip_balanced()
                if br != "{": self.expect(";")
                out.append(("skipped", x.line, attrs, "macro", self.t[s:self.i])); continue
            self.lost("item form outside the subset: `%s`" % x.text, x)

    def _at_fn(self):
        k = 0
        while self.peek(k).kind == "kw" and self.peek(k).text in ("const", "unsafe", "extern", "async"):
            k += 1
            if self.peek(k).kind == "str": k += 1
        return self.at("fn", k) and k <= 3 and not (k and self.peek(0).text == "const" and not self.at("fn", k))

    def _struct_item(self, attrs):
        x = self.expect("struct"); name = self.ident()
        if self.at("<"): self._generic_args_decl()
        if self.at("where"): self.lost("where clause on struct is outside the subset")
        if self.accept(";"):
            return ("struct", x.line, attrs, name, [])
        if self.at("("):
            self.skip_balanced(); self.expect(";")
            return ("struct", x.line, attrs, name, None)
        self.expect("{"); fields = []
        while not self.at("}"):
            self.attributes(); self.visibility()
            f = self.ident(); self.expect(":")
            fields.append((f, self.parse_type()))
            if not self.accept(","): break
        self.expect("}")
        return ("struct", x.line, attrs, name, fields)

    def _generic_args_decl(self):
        """generic parameter list of a declaration: skipped as balanced angle brackets"""
        self.expect("<"); depth = 1
        while depth:
            y = self.next()
            if y.kind == "eof": self.lost("unbalanced `<`")
            if y.kind == "p" and y.text == "<": depth += 1
            elif y.kind == "p" and y.text == ">": depth -= 1
            elif y.kind == "p" and y.text in ("{", "}", ";"): self.lost("malformed generics")

    def _impl_item(self, attrs):
        x = self.peek()
        is_unsafe = self.accept("unsafe"); self.expect("impl")
        generics = None
        if self.at("<"):
            s = self.i; self._generic_args_decl(); generics = join_tokens(self.t[s:self.i])
        neg = self.accept("!")
        s = self.i; trait = None
        # header: [Trait for] Type [where ...] {
        t1 = self.parse_type()
        if self.accept("for"):
            trait = t1; selfty = self.parse_type()
        else:
            selfty = t1
        where = None
        if self.at("where"):
            s2 = self.i
            while not self.at("{"):
                if self.peek().kind == "eof": self.lost("malformed impl header", x)
                self.next()
            where = join_tokens(self.t[s2:self.i])
        self.expect("{"); inner = self.items(until_brace=True); end = self.expect("}")
        hdr = {"unsafe": is_unsafe, "generics": generics, "trait": trait, "self": selfty, "where": where, "neg": neg}
        return ("impl", x.line, attrs, hdr, inner, end.line)

    def _fn_item(self, attrs):
        x = self.peek(); quals = []
        while not self.at("fn"):
            quals.append(self.next().text)
        self.expect("fn"); name = self.ident()
        if self.at("<"): self._generic_args_decl()
        self.expect("("); params = []
        while not self.at(")"):
            self.attributes()
            s = self.i
            if self.at("self") or (self.at("mut") and self.at("self", 1)) or \
               (self.at("&") and (self.at("self", 1) or (self.at("mut", 1) and self.at("self", 2))
                                  or (self.peek(1).kind == "life" and (self.at("self", 2) or self.at("self", 3))))):
                while not (self.at(",") or self.at(")")):
                    if self.at(":"): self.lost("typed self receiver is outside the subset")
                    self.next()
                params.append(("self", join_tokens(self.t[s:self.i])))
            else:
                p = self.pattern()
                if p[0] == "ptuple" and p[2] and all(q[0] == "pbind" and not q[3] for q in p[2]):
                    # `(a, b): (A, B)` -- a tuple of plain bindings; the "name" is the tuple of names  [iters chain, util.rs iter_element]
                    self.expect(":")
                    params.append((tuple(q[2] for q in p[2]), self.parse_type()))
                    if not self.accept(","): break
                    continue
                if p[0] != "pbind": self.lost("parameter pattern outside the subset", x)
                self.expect(":")
                params.append((p[2], self.parse_type()))
            if not self.accept(","): break
        self.expect(")")
        ret = None
        if self.accept("->"): ret = self.parse_type()
        if self.at("where"):
            while not (self.at("{") or self.at(";")):
                if self.peek().kind == "eof": self.lost("malformed fn header", x)
                self.next()
        if self.accept(";"):
            return ("fn", x.line, attrs, name, params, ret, None, x.line, quals)
        s = self.i
        self.skip_balanced()
        return ("fn", x.line, attrs, name, params, ret, (s, self.i), self.t[self.i - 1].line, quals)

    def fn_body(self, fn_item):
        """parse the body of a ('fn', ...) item on demand; returns a ('block', ...) node"""
        s, e = fn_item[6]
        sub = Parser(self.t[s:e] + [Tok("eof", "", self.t[e - 1].line)], self.fname)
        b = sub.block()
        if sub.peek().kind != "eof": sub.lost("trailing tokens after function body")
        return b


def parse_file(path):
    src = open(path, encoding="utf-8").read()
    p = Parser(tokenize(src), path)
    return p, p.items()
