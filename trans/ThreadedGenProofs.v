(* ThreadedGenProofs.v -- HAND-WRITTEN ONCE (not generated).  ONE-THREAD view: the methods of ThreadedRodeo<K, S>
   (src/threaded_rodeo.rs), regenerated as IR terms (ThreadedGen.v) and run by the interpreter of GenIRThreaded.v, are
   the functions t_intern, t_intern_static, t_get, t_ref (read: t_resolve), t_len, t_set_limit of the hand-written model
   Lasso.Rodeo that Rodeo.step compares them with -- for ALL states and arguments and every key capacity; no
   hypotheses.  (No unsafe indexing in these methods: the obligations are only arithmetic and hold trivially.)
   One generic tactic, [gen_threaded_tac]. *)
From Lasso Require Import Base Arena Rodeo.
From LassoGen Require Import GenPrelude GenIR GenIRRodeo GenIRThreaded GenTactics ThreadedGen.
Open Scope N_scope.

Arguments t_get : simpl never.
Arguments t_ref : simpl never.
Arguments strs_insert : simpl never.

Ltac threaded_step :=
  match goal with
  | |- context [t_get ?t ?s] => destruct (t_get t s) eqn:?
  | |- context [t_ref ?t ?k] => destruct (t_ref t k) eqn:?
  | |- context [lf_store ?a ?s] => let a' := fresh "a'" in destruct (lf_store a s) as [a' [?|?]] eqn:?
  | |- context [N.ltb ?a ?b] => destruct (N.ltb_spec a b); try (exfalso; lia)
  | |- context [N.leb ?a ?b] => destruct (N.leb_spec a b); try (exfalso; lia)
  | |- context [N.eqb ?a ?b] => destruct (N.eqb_spec a b); try (exfalso; lia)
  end.

Ltac gen_threaded_tac :=
  intros; unfold run_tfun in *; repeat autounfold with arenagen in *;
  repeat (cbn; unfold t_intern, t_intern_static, t_set_limit, try_key; threaded_step);
  cbn; unfold t_intern, t_intern_static, t_set_limit, try_key; cbn;
  first [ eq_close
        | solve [ repeat match goal with |- _ /\ _ => split | |- True => exact I end;
                  try solve [ exact I | eq_close | lia ] ]
        | idtac ].

Definition tdone_res (p : trodeo * res N) : tresult := TDone (fst p) (RvRes (snd p)).
Definition tdone_or_panic (p : trodeo * res N) : tresult :=
  match p with (t', Ok k) => TDone t' (RvKey k) | (t', Err _) => TPanic t' end.

Section Proofs.
  Variable keycap : N.
  Notation run := (run_tfun keycap).

  Theorem gen_t_try_get_or_intern_eq : forall t s,
    fst (run gen_t_try_get_or_intern t 0 s []) = Some (tdone_res (t_intern keycap t s))
    /\ snd (run gen_t_try_get_or_intern t 0 s []).
  Proof. unfold tdone_res. split; gen_threaded_tac. Qed.

  Theorem gen_t_try_get_or_intern_static_eq : forall t addr s,
    fst (run gen_t_try_get_or_intern_static t addr s []) = Some (tdone_res (t_intern_static keycap t addr s))
    /\ snd (run gen_t_try_get_or_intern_static t addr s []).
  Proof. unfold tdone_res. split; gen_threaded_tac. Qed.

  Theorem gen_t_get_or_intern_eq : forall t s,
    fst (run gen_t_get_or_intern t 0 s []) = Some (tdone_or_panic (t_intern keycap t s))
    /\ snd (run gen_t_get_or_intern t 0 s []).
  Proof. unfold tdone_or_panic. split; gen_threaded_tac. Qed.

  Theorem gen_t_get_or_intern_static_eq : forall t addr s,
    fst (run gen_t_get_or_intern_static t addr s []) = Some (tdone_or_panic (t_intern_static keycap t addr s))
    /\ snd (run gen_t_get_or_intern_static t addr s []).
  Proof. unfold tdone_or_panic. split; gen_threaded_tac. Qed.

  Theorem gen_t_get_eq : forall t s,
    fst (run gen_t_get t 0 s []) = Some (TDone t (RvOptKey (t_get t s))) /\ snd (run gen_t_get t 0 s []).
  Proof. split; gen_threaded_tac. Qed.

  Theorem gen_t_contains_eq : forall t s,
    fst (run gen_t_contains t 0 s []) = Some (TDone t (RvBool (match t_get t s with Some _ => true | None => false end)))
    /\ snd (run gen_t_contains t 0 s []).
  Proof. split; gen_threaded_tac. Qed.

  Theorem gen_t_contains_key_eq : forall t s k,
    fst (run gen_t_contains_key t 0 s [k]) = Some (TDone t (RvBool (match t_ref t k with Some _ => true | None => false end)))
    /\ snd (run gen_t_contains_key t 0 s [k]).
  Proof. split; gen_threaded_tac. Qed.

  (* the stored reference; Rodeo.t_resolve reads it: t_resolve t k = match t_ref t k with Some r => read (tar t) r | None => None end *)
  Theorem gen_t_try_resolve_eq : forall t s k,
    fst (run gen_t_try_resolve t 0 s [k]) = Some (TDone t (RvOptRef (t_ref t k))) /\ snd (run gen_t_try_resolve t 0 s [k]).
  Proof. split; gen_threaded_tac. Qed.

  Theorem gen_t_resolve_eq : forall t s k,
    fst (run gen_t_resolve t 0 s [k]) = Some (match t_ref t k with Some rf => TDone t (RvRef rf) | None => TPanic t end)
    /\ snd (run gen_t_resolve t 0 s [k]).
  Proof. split; gen_threaded_tac. Qed.

  Theorem gen_t_len_eq : forall t s,
    fst (run gen_t_len t 0 s []) = Some (TDone t (RvNum (t_len t))) /\ snd (run gen_t_len t 0 s []).
  Proof. split; gen_threaded_tac. Qed.

  Theorem gen_t_is_empty_eq : forall t s,
    fst (run gen_t_is_empty t 0 s []) = Some (TDone t (RvBool (t_len t =? 0))) /\ snd (run gen_t_is_empty t 0 s []).
  Proof. split; gen_threaded_tac. Qed.

  Theorem gen_t_set_memory_limits_eq : forall t s m,
    fst (run gen_t_set_memory_limits t 0 s [m]) = Some (TDone (t_set_limit t m) RvUnit)
    /\ snd (run gen_t_set_memory_limits t 0 s [m]).
  Proof. split; gen_threaded_tac. Qed.

  Theorem gen_t_current_memory_usage_eq : forall t s,
    fst (run gen_t_current_memory_usage t 0 s []) = Some (TDone t (RvNum (usage (tar t))))
    /\ snd (run gen_t_current_memory_usage t 0 s []).
  Proof. split; gen_threaded_tac. Qed.

  Theorem gen_t_max_memory_usage_eq : forall t s,
    fst (run gen_t_max_memory_usage t 0 s []) = Some (TDone t (RvNum (limit (tar t))))
    /\ snd (run gen_t_max_memory_usage t 0 s []).
  Proof. split; gen_threaded_tac. Qed.
End Proofs.

Print Assumptions gen_t_try_get_or_intern_eq.
Print Assumptions gen_t_try_get_or_intern_static_eq.
Print Assumptions gen_t_get_or_intern_eq.
Print Assumptions gen_t_get_or_intern_static_eq.
Print Assumptions gen_t_get_eq.
Print Assumptions gen_t_contains_eq.
Print Assumptions gen_t_contains_key_eq.
Print Assumptions gen_t_try_resolve_eq.
Print Assumptions gen_t_resolve_eq.
Print Assumptions gen_t_len_eq.
Print Assumptions gen_t_is_empty_eq.
Print Assumptions gen_t_set_memory_limits_eq.
Print Assumptions gen_t_current_memory_usage_eq.
Print Assumptions gen_t_max_memory_usage_eq.
