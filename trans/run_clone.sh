#!/bin/sh
# run_clone.sh <repo> <workdir> -- `prop.sh clone <repo> <workdir>` (exit 0 iff everything is proved)
exec "$(dirname "$0")/prop.sh" clone "$@"
