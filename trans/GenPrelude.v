(* GenPrelude.v -- HAND-WRITTEN, fixed.  The vocabulary in which rust2coq.py writes out the machine
   semantics of Rust's unsigned integers over N, and the generic tactics that compare a generated
   definition with the hand-written model.  Nothing here depends on the source text. *)
From Coq Require Export NArith List String Bool Lia ZifyBool ZifyN.
Export ListNotations.
Open Scope N_scope.

Arguments N.add : simpl never.
Arguments N.sub : simpl never.
Arguments N.mul : simpl never.
Arguments N.eqb : simpl never.
Arguments N.ltb : simpl never.
Arguments N.leb : simpl never.
Arguments N.modulo : simpl never.
Arguments N.pow : simpl never.

(* uN::MAX *)
Definition umax (bits : N) : N := 2 ^ bits - 1.

(* `e as uN`: truncation to the low N bits (the identity when the source type is narrower) *)
Definition cast (bits e : N) : N := e mod 2 ^ bits.

(* the mathematical result of an arithmetic node fits its type: no overflow panic (debug build), no
   wrap-around (release build) *)
Definition in_range (bits e : N) : Prop := e <= umax bits.

(* `a - b` does not underflow *)
Definition no_underflow (a b : N) : Prop := b <= a.

(* NonZeroUN::new_unchecked(e): e = 0 is undefined behaviour *)
Definition nonzero_arg (bits e : N) : Prop := e <> 0 /\ e <= umax bits.

(* the checked forms: `uN::try_from(x).ok()` (None iff x > uN::MAX), `a.checked_add(b)` on uN (None iff a + b > uN::MAX),
   `NonZeroUN::new(e)` (None iff e = 0), and `?` / and_then on Option *)
Definition try_from_int (bits x : N) : option N := if x <=? umax bits then Some x else None.
Definition checked_add (bits a b : N) : option N := if a + b <=? umax bits then Some (a + b) else None.
Definition nz_new (e : N) : option N := if e =? 0 then None else Some e.
Definition obind {A B : Type} (o : option A) (f : A -> option B) : option B :=
  match o with Some a => f a | None => None end.

(* a.saturating_sub(b) is N's truncated subtraction *)
Definition sat_sub (a b : N) : N := a - b.

(* ---- tactics ---- *)

(* replace every closed power 2^k by its value, so that lia sees constants *)
Ltac norm_pow :=
  repeat match goal with
  | |- context [2 ^ ?n] =>
      let v := eval vm_compute in (2 ^ n) in
      lazymatch v with N0 => idtac | Npos _ => idtac end;
      change (2 ^ n) with v
  | H : context [2 ^ ?n] |- _ =>
      let v := eval vm_compute in (2 ^ n) in
      lazymatch v with N0 => idtac | Npos _ => idtac end;
      change (2 ^ n) with v in H
  end.

(* case split on one comparison occurring in the goal, closing the impossible side at once *)
Ltac split_cmp_step :=
  match goal with
  | |- context [N.ltb ?a ?b] => destruct (N.ltb_spec a b)
  | |- context [N.leb ?a ?b] => destruct (N.leb_spec a b)
  | |- context [N.eqb ?a ?b] => destruct (N.eqb_spec a b)
  end; cbv beta iota; cbn [negb andb orb]; try (exfalso; lia).

Ltac split_cmp := repeat split_cmp_step.

(* close an equation between constructor terms whose leaves are arithmetic *)
Ltac eq_close :=
  solve [ reflexivity | lia | exfalso; lia | congruence | (progress f_equal); eq_close ].

Ltac prop_close :=
  repeat match goal with
  | |- _ /\ _ => split
  | |- True => exact I
  | |- _ -> _ => intro
  end;
  try solve [ exact I | eq_close | lia | discriminate ].
