(* GenTactics.v -- HAND-WRITTEN, fixed.  The one generic tactic [gen_arena_tac] with which every theorem of
   ArenaGenProofs.v (and LockfreeGenProofs.v, LegacySanity.v) is proved: unfold both sides, run the IR
   interpreter symbolically with [cbn], case-split on whatever comparison / last bucket / string shape blocks
   the evaluation (closing impossible cases with lia at once), then compare the leaves with f_equal / lia.
   It never mentions the shape of a generated term. *)
From Lasso Require Import Base Arena ArenaProofs.
From LassoGen Require Import GenPrelude GenIR GenRequest.
Open Scope N_scope.

(* ---------------- the generic tactic ---------------- *)

Ltac unfold_all :=
  unfold run_fun, run_bfun, run_wc, run_new, as_str_result, as_unit_result, as_unit, as_num,
         as_bnum, as_bbool, as_bunit, as_bref in *;
  repeat autounfold with arenagen in *;
  unfold vec_store, vec_store_legacy, vec_store_gen, grow, vec_place, arena_new, arena_clear, block_clear,
         vec_alloc_request, lf_alloc_request, grow_request, after_failed_alloc in *.

Ltac unfold_props :=
  unfold ArenaInv, arena_typed, push_pre, alloc_pre, wc_pre, free_pre, block_ok, alloc_size,
         usize_max, isize_max in *.

Ltac split_hyps :=
  repeat match goal with
  | H : _ /\ _ |- _ => destruct H
  end.

(* what the invariant says about the last bucket, once the execution has looked at it *)
Ltac use_last :=
  repeat match goal with
  | H : last_opt (blocks ?a) = Some ?b |- _ =>
      apply last_opt_In in H;
      repeat match goal with
      | F : Forall _ (blocks a) |- _ =>
          let F' := fresh in
          pose proof (proj1 (Forall_forall _ _) F _ H) as F'; cbv beta in F'; clear F
      end
  end.

(* one case split on whatever blocks the symbolic execution *)
Ltac sym_step :=
  match goal with
  | |- context [last_opt ?l] => destruct (last_opt l) eqn:?
  | |- context [N.ltb ?a ?b] => destruct (N.ltb_spec a b); try (exfalso; lia)
  | |- context [N.leb ?a ?b] => destruct (N.leb_spec a b); try (exfalso; lia)
  | |- context [N.eqb ?a ?b] => destruct (N.eqb_spec a b); try (exfalso; lia)
  end.

Ltac sym_exec :=
  repeat (cbn; unfold alloc_spec, wc_spec, push_slice, free_spec, is_full_spec; sym_step);
  cbn; unfold alloc_spec, wc_spec, push_slice, free_spec, is_full_spec, with_blocks, fresh_block; cbn.

(* hypotheses that speak about the same case analysis as the goal (an allocation request of the model) are moved
   into the goal before the symbolic execution, and instantiated at the leaves *)
Ltac revert_requests :=
  repeat match goal with
  | H : _ = Some _ |- _ => revert H
  | H : forall c d, _ = Some (c, d) -> _ |- _ => revert H
  end.

Ltac leaf_intros :=
  intros;
  repeat match goal with
  | H : forall c d, Some _ = Some (c, d) -> _ |- _ => specialize (H _ _ eq_refl)
  | H : forall c d, None = Some (c, d) -> _ |- _ => clear H
  | H : Some (_, _) = Some (?c, ?d) |- _ => is_var c; is_var d; injection H; intros; subst d; subst c; clear H
  | H : None = Some _ |- _ => discriminate H
  end.

Ltac finish :=
  leaf_intros; unfold_props; split_hyps; use_last; split_hyps;
  cbn [bid bcap bused bdata blocks bucket_cap usage limit next_bid];
  rewrite ?repeat_length, ?N2Nat.id;
  (* a copy inside the allocation does not change the size of the memory *)
  try (unfold slen in *; rewrite !bwrite_length by lia);
  first [ eq_close | solve [prop_close] | idtac ].

(* the string argument: empty, or non-empty with only its (positive) length known *)
Ltac case_string s :=
  let c := fresh "c" in let s0 := fresh "s0" in
  destruct s as [|c s0];
  [ change (slen []) with 0 in *
  | let Hs := fresh "Hs" in
    assert (Hs : 0 < slen (c :: s0)) by (apply slen_pos; discriminate);
    set (s := c :: s0) in * ].

Ltac gen_arena_tac :=
  intros; unfold_all; revert_requests;
  try match goal with s : str |- _ => case_string s end;
  sym_exec; finish.
