#!/bin/sh
# run_views.sh <repo> <workdir> -- `prop.sh views <repo> <workdir>` (exit 0 iff everything is proved)
exec "$(dirname "$0")/prop.sh" views "$@"
