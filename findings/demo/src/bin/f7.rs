//! F7 (C04): a first bucket of more than isize::MAX bytes.
//! `Rodeo::with_capacity(Capacity::for_bytes(1 << 63))` is a safe call.  Before the `fix:` commit 784e567 the arena built
//! the block's `Layout` with `Layout::from_size_align_unchecked`, whose safety condition (size <= isize::MAX) this
//! call violates: undefined behaviour in release builds (run this binary under Miri with debug assertions off:
//! `cargo +nightly miri run --release --bin f7` reports "creating an allocation larger than half the address space"),
//! and a `debug_assert` panic inside the arena in debug builds.  The documented behaviour of the infallible constructor
//! on a failed allocation is the panic "failed to allocate memory for interner: .. FailedAllocation".
//! Exit 0 iff the constructor fails in the documented way (a debug build tells the two apart by the message).
use lasso::{Capacity, Rodeo, Spur, ThreadedRodeo};
use std::num::NonZeroUsize;

fn message(p: Box<dyn std::any::Any + Send>) -> String {
    p.downcast_ref::<String>()
        .cloned()
        .or_else(|| p.downcast_ref::<&'static str>().map(|s| s.to_string()))
        .unwrap_or_default()
}

fn main() {
    std::panic::set_hook(Box::new(|_| {}));
    let cap = || Capacity::for_bytes(NonZeroUsize::new(1usize << 63).unwrap());
    let mut bad = 0;
    match std::panic::catch_unwind(|| Rodeo::<Spur>::with_capacity(cap())) {
        Ok(_) => { println!("Rodeo: an interner with a 2^63-byte block?"); bad += 1; }
        Err(p) => { let m = message(p); if !m.contains("FailedAllocation") { println!("Rodeo: undocumented panic: {m}"); bad += 1; } }
    }
    match std::panic::catch_unwind(|| ThreadedRodeo::<Spur>::with_capacity(cap())) {
        Ok(_) => { println!("ThreadedRodeo: an interner with a 2^63-byte block?"); bad += 1; }
        Err(p) => { let m = message(p); if !m.contains("FailedAllocation") { println!("ThreadedRodeo: undocumented panic: {m}"); bad += 1; } }
    }
    if bad == 0 { println!("F7: the constructors report a failed allocation"); }
    std::process::exit(if bad == 0 { 0 } else { 1 });
}
