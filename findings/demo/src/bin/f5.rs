// F5 (C15): list deserialisers skip a repeated string but keep numbering by position.
use lasso::{Rodeo, RodeoReader, Spur};
fn main() {
    let mut bad = 0;
    let doc = r#"["a","a","b"]"#;
    let r = std::panic::catch_unwind(|| serde_json::from_str::<Rodeo<Spur>>(doc).map(|r| {
        let ks: Vec<_> = r.iter().map(|(k, s)| (k, s.to_string())).collect();
        (r.len(), r.get("b"), ks)
    }));
    match r {
        Ok(Err(_)) => {}
        Ok(Ok((len, getb, ks))) => {
            let ok = ks.iter().any(|(k, s)| s == "b" && getb == Some(*k));
            if !ok { println!("Rodeo {doc}: len {len}, iter {ks:?}, get(\"b\") = {getb:?}"); bad += 1 }
        }
        Err(_) => { println!("Rodeo {doc}: panicked (debug_assert) instead of Err"); bad += 1 }
    }
    let r = std::panic::catch_unwind(|| serde_json::from_str::<RodeoReader<Spur>>(doc).map(|r| {
        let ks: Vec<_> = r.iter().map(|(k, s)| (k, s.to_string())).collect();
        (r.len(), r.get("b"), ks)
    }));
    match r {
        Ok(Err(_)) => {}
        Ok(Ok((len, getb, ks))) => {
            let ok = ks.iter().any(|(k, s)| s == "b" && getb == Some(*k));
            if !ok { println!("RodeoReader {doc}: len {len}, iter {ks:?}, get(\"b\") = {getb:?}"); bad += 1 }
        }
        Err(_) => { println!("RodeoReader {doc}: panicked (debug_assert) instead of Err"); bad += 1 }
    }
    std::process::exit(if bad > 0 { 1 } else { 0 });
}
