// F6 (C16/C17): Box<I>::try_get_or_intern_static forwards to the copying entry point.
use lasso::{Interner, Resolver, Rodeo, Spur};
static S: &str = "a static string of thirty-five bytes";
fn main() {
    let mut b: Box<Rodeo<Spur>> = Box::new(Rodeo::new());
    let k = Interner::try_get_or_intern_static(&mut b, S).unwrap();
    let got = Resolver::resolve(&b, &k);
    if got.as_ptr() != S.as_ptr() {
        println!("boxed try_get_or_intern_static copied the string: {:p} != {:p}", got.as_ptr(), S.as_ptr());
        std::process::exit(1)
    }
}
