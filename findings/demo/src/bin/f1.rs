// F1 (C04/C08): "remaining budget" branch stores `len` bytes into a block of `limit-usage` bytes.
use lasso::{Capacity, MemoryLimits, Rodeo, Spur, ThreadedRodeo};
use std::num::NonZeroUsize;
fn main() {
    let mut bad = 0;
    let cap = Capacity::new(4, NonZeroUsize::new(10).unwrap());
    let r = std::panic::catch_unwind(|| {
        let mut rodeo: Rodeo<Spur> = Rodeo::with_capacity_and_memory_limits(cap, MemoryLimits::new(15));
        let a = rodeo.try_get_or_intern("0123456789");
        let b = rodeo.try_get_or_intern("abcdefgh");
        (a.is_ok(), b.is_ok(), rodeo.current_memory_usage())
    });
    match r {
        Ok((_, true, usage)) => { println!("Rodeo: 8 bytes accepted into a 5-byte block (usage {usage}, limit 15)"); bad += 1 }
        Err(_) => { println!("Rodeo: debug_assert in push_slice fired (overflowing copy)"); bad += 1 }
        Ok((_, false, _)) => {}
    }
    let r = std::panic::catch_unwind(|| {
        let rodeo: ThreadedRodeo<Spur> = ThreadedRodeo::with_capacity_and_memory_limits(cap, MemoryLimits::new(15));
        let a = rodeo.try_get_or_intern("0123456789");
        let b = rodeo.try_get_or_intern("abcdefgh");
        (a.is_ok(), b.is_ok(), rodeo.current_memory_usage())
    });
    match r {
        Ok((_, true, usage)) => { println!("ThreadedRodeo: 8 bytes accepted into a 5-byte block (usage {usage}, limit 15)"); bad += 1 }
        Err(_) => { println!("ThreadedRodeo: debug_assert in push_slice fired (overflowing copy)"); bad += 1 }
        Ok((_, false, _)) => {}
    }
    std::process::exit(if bad > 0 { 1 } else { 0 });
}
