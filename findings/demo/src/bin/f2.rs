// F2 (C09): LockfreeArena::allocate_memory checks the budget and adds to it in two separate steps.
use lasso::{Capacity, MemoryLimits, Spur, ThreadedRodeo};
use std::num::NonZeroUsize;
use std::sync::{Arc, Barrier};
fn main() {
    let rounds: usize = std::env::args().nth(1).and_then(|s| s.parse().ok()).unwrap_or(200_000);
    let mut over = 0usize;
    for _ in 0..rounds {
        let rodeo: Arc<ThreadedRodeo<Spur>> = Arc::new(ThreadedRodeo::with_capacity_and_memory_limits(
            Capacity::new(0, NonZeroUsize::new(1).unwrap()), MemoryLimits::new(4)));
        let bar = Arc::new(Barrier::new(2));
        let hs: Vec<_> = ["ab", "cd"].into_iter().map(|s| {
            let (r, b) = (rodeo.clone(), bar.clone());
            std::thread::spawn(move || { b.wait(); let _ = std::panic::catch_unwind(std::panic::AssertUnwindSafe(|| r.try_get_or_intern(s))); })
        }).collect();
        for h in hs { let _ = h.join(); }
        if rodeo.current_memory_usage() > rodeo.max_memory_usage() { over += 1; }
    }
    if over > 0 { println!("{over} of {rounds} two-thread runs ended with usage 5 > limit 4"); std::process::exit(1) }
}
