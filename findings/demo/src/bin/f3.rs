// F3 (C14): a deserialised ThreadedRodeo hands out the highest restored key again.
use lasso::{Spur, ThreadedRodeo};
fn main() {
    let r: ThreadedRodeo<Spur> = ThreadedRodeo::new();
    let _a = r.get_or_intern("a");
    let b = r.get_or_intern("b");
    let json = serde_json::to_string(&r).unwrap();
    let d: ThreadedRodeo<Spur> = serde_json::from_str(&json).unwrap();
    let c = d.get_or_intern("c");
    if c == b || d.resolve(&b) != "b" {
        println!("after round-trip, intern(\"c\") = {:?} = key of \"b\"; resolve(b) = {:?}", c, d.resolve(&b));
        std::process::exit(1)
    }
}
