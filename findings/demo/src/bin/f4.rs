// F4 (C15): ThreadedRodeo's deserialiser takes keys verbatim (gaps, duplicates).
use lasso::{Spur, ThreadedRodeo};
fn main() {
    let mut bad = 0;
    for doc in [r#"{"a":1,"b":7}"#, r#"{"a":1,"b":1}"#, r#"{"a":2}"#] {
        let doc2 = doc.to_string();
        let r = std::panic::catch_unwind(move || {
            match serde_json::from_str::<ThreadedRodeo<Spur>>(&doc2) {
                Err(_) => None,
                Ok(t) => {
                    // self-consistency of the accepted object
                    let mut incons = Vec::new();
                    for (k, s) in t.iter() { if t.get(s) != Some(k) { incons.push(format!("get({s:?}) != {k:?}")); } }
                    for s in ["a", "b"] { if let Some(k) = t.get(s) { if t.try_resolve(&k) != Some(s) { incons.push(format!("resolve(get({s:?})) = {:?}", t.try_resolve(&k))); } } }
                    let res = t.into_resolver();
                    Some((incons, res.len()))
                }
            }
        });
        match r {
            Ok(None) => {}
            Ok(Some((inc, _))) if inc.is_empty() => { println!("{doc}: accepted (consistent probes), conversion survived -- but keys are not 0..n-1"); bad += 1 }
            Ok(Some((inc, _))) => { println!("{doc}: accepted, inconsistent: {inc:?}"); bad += 1 }
            Err(_) => { println!("{doc}: accepted, then into_resolver faulted (panic in debug = out-of-bounds write in release)"); bad += 1 }
        }
    }
    std::process::exit(if bad > 0 { 1 } else { 0 });
}
