#!/bin/bash
# Build the whole framework from files on disk (offline): Coq development, model runner, Rust drivers.
set -e
cd /verif
export CARGO_NET_OFFLINE=true CARGO_TARGET_DIR=/verif/build/target RUSTFLAGS="--cfg lasso_verif"
mkdir -p build/bin build/extracted build/work replays evidence
( cd coq && coq_makefile -f _CoqProject -o Makefile > /dev/null && timeout 3000 make -j16 2>&1 | grep -v "^COQC\|^COQDEP\|Closed under" | tail -20 )
./runner/build.sh > /dev/null
( cd harness && cargo build --offline 2>&1 | tail -2 && cargo build --offline --release 2>&1 | tail -2 )
echo "setup done"
